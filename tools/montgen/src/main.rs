//! Runs the REAL derive-macro generator of /repo (ff-macros/src/montgomery) outside a proc-macro:
//! `montgen <modulus> <generator>` prints the token stream `#[derive(MontConfig)]` would emit for that modulus.
extern crate proc_macro;
#[allow(dead_code)]
#[path = "/repo/ff-macros/src/utils.rs"]
mod utils;
#[allow(dead_code)]
#[path = "/repo/ff-macros/src/montgomery/mod.rs"]
mod montgomery;
use std::str::FromStr;
fn main() {
    let m = num_bigint::BigUint::from_str(&std::env::args().nth(1).unwrap()).unwrap();
    let g = num_bigint::BigUint::from_str(&std::env::args().nth(2).unwrap()).unwrap();
    let ts = montgomery::mont_config_helper(m, g, None, None, proc_macro2::Ident::new("Cfg", proc_macro2::Span::call_site()));
    println!("{}", ts);
}
