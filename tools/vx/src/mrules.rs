//! A deliberately small `macro_rules!` expander, sufficient for the repository's own helper
//! macros (`adc!`, `sbb!`, `mac!`, `mac_with_carry!`, `const_for!`, `const_modulo!`).
//! Supported: several rules, fragments expr/ident/tt/ty/literal/block/lifetime-free,
//! `$( literal tokens )?` / `*` groups without bindings, `$crate`.
//! Anything else makes expansion fail (the caller reports "unsupported construct", exit 2).

use proc_macro2::{Delimiter, Group, Ident, Spacing, TokenStream, TokenTree};
use std::collections::HashMap;
use syn::parse::Parser;

#[derive(Clone, Debug)]
pub struct MacroDef {
    pub name: String,
    pub rules: Vec<(TokenStream, TokenStream)>,
    pub source_file: String,
}

pub fn parse_macro_rules(item: &syn::ItemMacro, source_file: &str) -> Result<MacroDef, String> {
    let name = item.ident.as_ref().ok_or("macro_rules without name")?.to_string();
    let toks: Vec<TokenTree> = item.mac.tokens.clone().into_iter().collect();
    let mut rules = vec![];
    let mut i = 0;
    while i < toks.len() {
        let pat = match &toks[i] {
            TokenTree::Group(g) => g.stream(),
            t => return Err(format!("macro {name}: expected matcher group, got {t}")),
        };
        i += 1;
        match (toks.get(i), toks.get(i + 1)) {
            (Some(TokenTree::Punct(a)), Some(TokenTree::Punct(b))) if a.as_char() == '=' && b.as_char() == '>' => {},
            _ => return Err(format!("macro {name}: expected =>")),
        }
        i += 2;
        let body = match toks.get(i) {
            Some(TokenTree::Group(g)) => g.stream(),
            _ => return Err(format!("macro {name}: expected transcriber group")),
        };
        i += 1;
        if let Some(TokenTree::Punct(p)) = toks.get(i) {
            if p.as_char() == ';' {
                i += 1;
            }
        }
        rules.push((pat, body));
    }
    Ok(MacroDef { name, rules, source_file: source_file.to_string() })
}

type Bindings = HashMap<String, TokenStream>;

fn tts(ts: TokenStream) -> Vec<TokenTree> {
    ts.into_iter().collect()
}

fn parse_prefix<T: syn::parse::Parse + quote::ToTokens>(input: &[TokenTree]) -> Option<(TokenStream, usize)> {
    // parse a T from the front of input; return its tokens and how many top-level token trees were consumed
    let total = input.len();
    let ts: TokenStream = input.iter().cloned().collect();
    let parser = |ps: syn::parse::ParseStream<'_>| -> syn::Result<(T, TokenStream)> {
        let t: T = ps.parse()?;
        let rest: TokenStream = ps.parse()?;
        Ok((t, rest))
    };
    let (t, rest) = parser.parse2(ts).ok()?;
    let rest_n = rest.into_iter().count();
    let mut out = TokenStream::new();
    quote::ToTokens::to_tokens(&t, &mut out);
    Some((out, total - rest_n))
}

fn match_seq(pat: &[TokenTree], input: &[TokenTree], b: &mut Bindings) -> Option<usize> {
    // returns number of input trees consumed when the whole pattern matched a prefix
    let mut pi = 0;
    let mut ii = 0;
    while pi < pat.len() {
        match &pat[pi] {
            TokenTree::Punct(p) if p.as_char() == '$' => {
                match pat.get(pi + 1) {
                    Some(TokenTree::Ident(name)) => {
                        // $name:frag
                        let frag = match (pat.get(pi + 2), pat.get(pi + 3)) {
                            (Some(TokenTree::Punct(c)), Some(TokenTree::Ident(f))) if c.as_char() == ':' => f.to_string(),
                            _ => return None,
                        };
                        pi += 4;
                        let rest = &input[ii..];
                        let (toks, n) = match frag.as_str() {
                            "expr" => {
                                // an expr fragment must not swallow a following `..` when the pattern says so;
                                // the repo macros never rely on that, syn parses greedily like rustc.
                                let (t, n) = parse_prefix::<syn::Expr>(rest)?;
                                let e: syn::Expr = syn::parse2(t.clone()).ok()?;
                                let atomic = matches!(
                                    e,
                                    syn::Expr::Block(_)
                                        | syn::Expr::If(_)
                                        | syn::Expr::Match(_)
                                        | syn::Expr::While(_)
                                        | syn::Expr::ForLoop(_)
                                        | syn::Expr::Loop(_)
                                        | syn::Expr::Unsafe(_)
                                        | syn::Expr::Path(_)
                                        | syn::Expr::Lit(_)
                                        | syn::Expr::Field(_)
                                        | syn::Expr::Index(_)
                                        | syn::Expr::MethodCall(_)
                                        | syn::Expr::Call(_)
                                        | syn::Expr::Paren(_)
                                        | syn::Expr::Macro(_)
                                        | syn::Expr::Tuple(_)
                                        | syn::Expr::Array(_)
                                );
                                if atomic {
                                    (t, n)
                                } else {
                                    // parenthesise to keep the precedence rustc gives an `expr` fragment
                                    let g = TokenTree::Group(Group::new(Delimiter::Parenthesis, t));
                                    (std::iter::once(g).collect::<TokenStream>(), n)
                                }
                            },
                            "ident" => match rest.first()? {
                                TokenTree::Ident(i) => (std::iter::once(TokenTree::Ident(i.clone())).collect(), 1),
                                _ => return None,
                            },
                            "tt" => (std::iter::once(rest.first()?.clone()).collect(), 1),
                            "literal" => match rest.first()? {
                                TokenTree::Literal(l) => (std::iter::once(TokenTree::Literal(l.clone())).collect(), 1),
                                _ => return None,
                            },
                            "ty" => parse_prefix::<syn::Type>(rest)?,
                            "block" => parse_prefix::<syn::Block>(rest)?,
                            _ => return None,
                        };
                        b.insert(name.to_string(), toks);
                        ii += n;
                    },
                    Some(TokenTree::Group(g)) if g.delimiter() == Delimiter::Parenthesis => {
                        // $( ... ) [sep] rep   -- only binding-free groups
                        let inner = tts(g.stream());
                        if inner.iter().any(|t| matches!(t, TokenTree::Punct(p) if p.as_char()=='$')) {
                            return None;
                        }
                        let mut k = pi + 2;
                        let rep = match pat.get(k) {
                            Some(TokenTree::Punct(p)) if "?*+".contains(p.as_char()) => p.as_char(),
                            _ => return None,
                        };
                        k += 1;
                        pi = k;
                        let mut count = 0;
                        loop {
                            let mut scratch = Bindings::new();
                            match match_seq(&inner, &input[ii..], &mut scratch) {
                                Some(n) if n > 0 => {
                                    ii += n;
                                    count += 1;
                                    if rep == '?' {
                                        break;
                                    }
                                },
                                _ => break,
                            }
                        }
                        if rep == '+' && count == 0 {
                            return None;
                        }
                    },
                    _ => return None,
                }
            },
            TokenTree::Group(pg) => {
                match input.get(ii) {
                    Some(TokenTree::Group(ig)) if ig.delimiter() == pg.delimiter() => {
                        let inner_p = tts(pg.stream());
                        let inner_i = tts(ig.stream());
                        let n = match_seq(&inner_p, &inner_i, b)?;
                        if n != inner_i.len() {
                            return None;
                        }
                    },
                    _ => return None,
                }
                pi += 1;
                ii += 1;
            },
            lit => {
                let t = input.get(ii)?;
                if lit.to_string() != t.to_string() {
                    return None;
                }
                pi += 1;
                ii += 1;
            },
        }
    }
    Some(ii)
}

fn transcribe(body: TokenStream, b: &Bindings) -> Result<TokenStream, String> {
    transcribe_h(body, b, &[])
}

fn transcribe_h(body: TokenStream, b: &Bindings, rename: &[String]) -> Result<TokenStream, String> {
    let v = tts(body);
    let mut out: Vec<TokenTree> = vec![];
    let mut i = 0;
    while i < v.len() {
        match &v[i] {
            TokenTree::Punct(p) if p.as_char() == '$' => match v.get(i + 1) {
                Some(TokenTree::Ident(id)) => {
                    let n = id.to_string();
                    if n == "crate" {
                        out.push(TokenTree::Ident(Ident::new("crate", id.span())));
                    } else if let Some(ts) = b.get(&n) {
                        out.extend(ts.clone());
                    } else {
                        return Err(format!("unbound macro variable ${n}"));
                    }
                    i += 2;
                },
                _ => return Err("unsupported `$` form in transcriber".into()),
            },
            TokenTree::Group(g) => {
                let inner = transcribe_h(g.stream(), b, rename)?;
                let mut ng = Group::new(g.delimiter(), inner);
                ng.set_span(g.span());
                out.push(TokenTree::Group(ng));
                i += 1;
            },
            TokenTree::Ident(id) if rename.contains(&id.to_string()) => {
                out.push(TokenTree::Ident(Ident::new(&format!("{}_vxh", id), id.span())));
                i += 1;
            },
            t => {
                out.push(t.clone());
                i += 1;
            },
        }
    }
    Ok(out.into_iter().collect())
}

fn let_bound_idents(ts: &TokenStream, out: &mut Vec<String>) {
    let v = tts(ts.clone());
    let mut i = 0;
    while i < v.len() {
        match &v[i] {
            TokenTree::Ident(id) if id == "let" => {
                let mut k = i + 1;
                if let Some(TokenTree::Ident(m)) = v.get(k) {
                    if m == "mut" {
                        k += 1;
                    }
                }
                if let Some(TokenTree::Ident(n)) = v.get(k) {
                    // `let $i = ..` shows as Punct('$'), not Ident, so only literal names land here
                    out.push(n.to_string());
                }
            },
            TokenTree::Group(g) => let_bound_idents(&g.stream(), out),
            _ => {},
        }
        i += 1;
    }
}

fn idents_of(ts: &TokenStream, out: &mut Vec<String>) {
    for t in ts.clone() {
        match t {
            TokenTree::Ident(i) => out.push(i.to_string()),
            TokenTree::Group(g) => idents_of(&g.stream(), out),
            _ => {},
        }
    }
}

pub fn expand(def: &MacroDef, input: TokenStream) -> Result<TokenStream, String> {
    let inp = tts(input);
    for (pat, body) in &def.rules {
        let mut b = Bindings::new();
        let p = tts(pat.clone());
        if let Some(n) = match_seq(&p, &inp, &mut b) {
            if n == inp.len() {
                // hygiene guard: a name the macro introduces with `let` must not occur in an argument
                let mut introduced = vec![];
                let_bound_idents(body, &mut introduced);
                let mut used = vec![];
                for ts in b.values() {
                    idents_of(ts, &mut used);
                }
                // macro hygiene: a binder of the template that collides with a name used in an argument is a DIFFERENT
                // variable in Rust; model it by renaming the template's own occurrences (never the substituted arguments)
                let mut rename: Vec<String> = vec![];
                for i in &introduced {
                    if used.contains(i) && !rename.contains(i) {
                        rename.push(i.clone());
                    }
                }
                return transcribe_h(body.clone(), &b, &rename);
            }
        }
    }
    Err(format!("no rule of macro {}! matches", def.name))
}

#[allow(dead_code)]
pub fn is_joint(t: &TokenTree) -> bool {
    matches!(t, TokenTree::Punct(p) if p.spacing() == Spacing::Joint)
}
