//! vx — mechanical extractor + contract weaver.
//!
//! `vx gen <bundle.vxb> --repo /repo --out gen/x.rs --report gen/x.report.json [--probe]`
//!
//! A bundle is Verus text with `//@` directives.  Every `//@unit` is replaced by the token stream
//! of the named function *as parsed from the current working tree*, transformed only by the closed
//! rewrite catalogue of DESIGN.md §2.1 (each application is logged in the report), with the
//! contract text of the directive spliced in at structural anchors.
//!
//! Exit codes: 0 ok, 2 = cannot extract (anchor lost / unsupported construct).  Never 1.

mod mrules;

use proc_macro2::{Span, TokenStream};
use quote::{quote, ToTokens};
use regex::Regex;
use sha2::{Digest, Sha256};
use std::collections::{BTreeMap, HashMap};
use std::io::Write as _;
use std::process::{Command, Stdio};
use syn::visit_mut::{self, VisitMut};
use syn::{Attribute, Block, Expr, Item, Stmt};

fn die(msg: &str) -> ! {
    eprintln!("vx: UNDECIDED {msg}");
    std::process::exit(2);
}

fn squash(s: &str) -> String {
    // whitespace-free text; a trailing comma before a closing delimiter (rustfmt's multi-line call style) is dropped so that
    // an anchor written on one line matches the same statement however it is wrapped
    let t: String = s.chars().filter(|c| !c.is_whitespace()).collect();
    t.replace(",)", ")").replace(",]", "]").replace(",}", "}")
}

// ---------------------------------------------------------------- cfg evaluation (R2)

#[derive(Clone)]
struct CfgEnv {
    kv: Vec<(String, String)>, // e.g. ("target_arch","x86_64"), ("feature","std")
    flags: Vec<String>,        // e.g. "unix", "debug_assertions"
}

impl CfgEnv {
    fn default_env() -> Self {
        CfgEnv {
            kv: vec![
                ("target_arch".into(), "x86_64".into()),
                ("target_os".into(), "linux".into()),
                ("target_family".into(), "unix".into()),
                ("target_pointer_width".into(), "64".into()),
                ("target_endian".into(), "little".into()),
                ("feature".into(), "std".into()),
            ],
            flags: vec!["unix".into(), "debug_assertions".into()],
        }
    }
    fn eval_meta(&self, m: &syn::Meta) -> Result<bool, String> {
        match m {
            syn::Meta::Path(p) => {
                let n = p.to_token_stream().to_string();
                Ok(self.flags.contains(&n))
            },
            syn::Meta::NameValue(nv) => {
                let k = nv.path.to_token_stream().to_string();
                let v = match &nv.value {
                    Expr::Lit(syn::ExprLit { lit: syn::Lit::Str(s), .. }) => s.value(),
                    _ => return Err("cfg value".into()),
                };
                Ok(self.kv.iter().any(|(a, b)| *a == k && *b == v))
            },
            syn::Meta::List(l) => {
                let op = l.path.to_token_stream().to_string();
                let parser = syn::punctuated::Punctuated::<syn::Meta, syn::Token![,]>::parse_terminated;
                let items = syn::parse::Parser::parse2(parser, l.tokens.clone()).map_err(|e| e.to_string())?;
                let mut vals = vec![];
                for i in items.iter() {
                    vals.push(self.eval_meta(i)?);
                }
                match op.as_str() {
                    "all" => Ok(vals.iter().all(|x| *x)),
                    "any" => Ok(vals.iter().any(|x| *x)),
                    "not" => Ok(!vals[0]),
                    _ => Err(format!("cfg operator {op}")),
                }
            },
        }
    }
    fn eval_cfg_attr(&self, a: &Attribute) -> Result<bool, String> {
        // #[cfg(pred)]
        let m: syn::Meta = a.parse_args().map_err(|e| e.to_string())?;
        self.eval_meta(&m)
    }
    fn eval_tokens(&self, ts: TokenStream) -> Result<bool, String> {
        let m: syn::Meta = syn::parse2(ts).map_err(|e| e.to_string())?;
        self.eval_meta(&m)
    }
}

// ---------------------------------------------------------------- context

#[derive(Default, Clone)]
struct Log {
    entries: Vec<serde_json::Value>,
}
impl Log {
    fn add(&mut self, rule: &str, what: &str, detail: String) {
        self.entries.push(serde_json::json!({"rule": rule, "what": what, "detail": detail}));
    }
}

struct Ctx {
    repo: String,
    cfg: CfgEnv,
    macros: HashMap<String, mrules::MacroDef>,
    path_rw: Vec<(Vec<String>, Vec<String>)>, // prefix rewrite on paths
    unwrap_types: Vec<String>,                // `W<T, ..>` => `T`  (R6 identification of forwarding wrappers)
    type_rw: Vec<(String, String)>,           // whole-type rewrite, matched on the squashed token text
    expr_rw: Vec<(String, String)>,           // whole-expression rewrite (R6: instantiation of abstract constants)
    method_rw: Vec<(String, String)>,         // method-name rewrite  .from(  => .vx_from(
    files: HashMap<String, syn::File>,
    file_text: HashMap<String, String>,
}

impl Ctx {
    fn load(&mut self, rel: &str) -> &syn::File {
        if !self.files.contains_key(rel) {
            let p = if rel.starts_with('/') { rel.to_string() } else { format!("{}/{}", self.repo, rel) };
            let text = std::fs::read_to_string(&p).unwrap_or_else(|e| die(&format!("anchor-lost: cannot read {p}: {e}")));
            let f = syn::parse_file(&text).unwrap_or_else(|e| die(&format!("anchor-lost: cannot parse {p}: {e}")));
            self.files.insert(rel.to_string(), f);
            self.file_text.insert(rel.to_string(), text);
        }
        &self.files[rel]
    }
}

// ---------------------------------------------------------------- selection

#[derive(Clone)]
struct FnParts {
    attrs: Vec<Attribute>,
    sig: syn::Signature,
    block: Block,
    span: (usize, usize),
}

enum Found {
    Fn(FnParts),
    Item(Item),
}

fn header_of_item(it: &Item) -> Option<(String, &'static str)> {
    match it {
        Item::Impl(i) => {
            let mut ts = TokenStream::new();
            i.impl_token.to_tokens(&mut ts);
            i.generics.to_tokens(&mut ts);
            if let Some((bang, p, f)) = &i.trait_ {
                bang.to_tokens(&mut ts);
                p.to_tokens(&mut ts);
                f.to_tokens(&mut ts);
            }
            i.self_ty.to_tokens(&mut ts);
            i.generics.where_clause.to_tokens(&mut ts);
            Some((squash(&ts.to_string()), "impl"))
        },
        Item::Trait(t) => Some((squash(&format!("trait {}", t.ident)), "trait")),
        Item::Mod(m) => Some((squash(&format!("mod {}", m.ident)), "mod")),
        _ => None,
    }
}

fn span_lines(s: Span, e: Span) -> (usize, usize) {
    (s.start().line, e.end().line)
}

fn find_in_items<'a>(items: &'a [Item], segs: &[String], out: &mut Vec<Found>) {
    if segs.len() == 1 {
        let name = &segs[0];
        for it in items {
            match it {
                Item::Fn(f) if f.sig.ident == name => out.push(Found::Fn(FnParts {
                    attrs: f.attrs.clone(),
                    sig: f.sig.clone(),
                    block: (*f.block).clone(),
                    span: span_lines(f.sig.fn_token.span, f.block.brace_token.span.close()),
                })),
                Item::Struct(s) if squash(&format!("struct {}", s.ident)) == squash(name) => out.push(Found::Item(it.clone())),
                Item::Enum(s) if squash(&format!("enum {}", s.ident)) == squash(name) => out.push(Found::Item(it.clone())),
                Item::Const(s) if squash(&format!("const {}", s.ident)) == squash(name) => out.push(Found::Item(it.clone())),
                Item::Type(s) if squash(&format!("type {}", s.ident)) == squash(name) => out.push(Found::Item(it.clone())),
                _ => {},
            }
        }
        return;
    }
    let words: Vec<&str> = segs[0].split_whitespace().collect();
    for it in items {
        if let Some((hdr, _)) = header_of_item(it) {
            // every word of the pattern must occur in the header, in order
            let mut pos = 0usize;
            let mut ok = true;
            for w in &words {
                match hdr[pos..].find(w) {
                    Some(k) => pos += k + w.len(),
                    None => {
                        ok = false;
                        break;
                    },
                }
            }
            if !ok {
                continue;
            }
            match it {
                Item::Impl(i) => {
                    if segs.len() == 2 {
                        for ii in &i.items {
                            match ii {
                                syn::ImplItem::Fn(f) if f.sig.ident == segs[1] => out.push(Found::Fn(FnParts {
                                    attrs: f.attrs.clone(),
                                    sig: f.sig.clone(),
                                    block: f.block.clone(),
                                    span: span_lines(f.sig.fn_token.span, f.block.brace_token.span.close()),
                                })),
                                syn::ImplItem::Const(c) if squash(&format!("const {}", c.ident)) == squash(&segs[1]) => {
                                    out.push(Found::Item(Item::Verbatim(c.to_token_stream())))
                                },
                                _ => {},
                            }
                        }
                    }
                },
                Item::Trait(t) => {
                    if segs.len() == 2 {
                        for ti in &t.items {
                            match ti {
                                syn::TraitItem::Fn(f) if f.sig.ident == segs[1] => {
                                    if let Some(b) = &f.default {
                                        out.push(Found::Fn(FnParts {
                                            attrs: f.attrs.clone(),
                                            sig: f.sig.clone(),
                                            block: b.clone(),
                                            span: span_lines(f.sig.fn_token.span, b.brace_token.span.close()),
                                        }))
                                    }
                                },
                                syn::TraitItem::Const(c) if squash(&format!("const {}", c.ident)) == squash(&segs[1]) => {
                                    out.push(Found::Item(Item::Verbatim(c.to_token_stream())))
                                },
                                _ => {},
                            }
                        }
                    }
                },
                Item::Mod(m) => {
                    if let Some((_, its)) = &m.content {
                        find_in_items(its, &segs[1..], out);
                    }
                },
                _ => {},
            }
        }
    }
}

fn select(ctx: &mut Ctx, file: &str, sel: &str) -> Found {
    let segs: Vec<String> = sel.split(" / ").map(|s| s.trim().to_string()).collect();
    let f = ctx.load(file);
    // flatten `const _: () = { items };` wrappers (derive-macro output)
    let mut items: Vec<Item> = vec![];
    for it in &f.items {
        match it {
            Item::Const(c) if c.ident == "_" => {
                if let Expr::Block(b) = &*c.expr {
                    for s in &b.block.stmts {
                        if let Stmt::Item(i) = s {
                            items.push(i.clone());
                        }
                    }
                }
            },
            _ => items.push(it.clone()),
        }
    }
    let mut out = vec![];
    find_in_items(&items, &segs, &mut out);
    if out.len() != 1 {
        die(&format!("anchor-lost: selector `{sel}` in {file} matched {} items (need exactly 1)", out.len()));
    }
    out.pop().unwrap()
}

// ---------------------------------------------------------------- rewriter

struct Rw<'a> {
    ctx: &'a Ctx,
    log: &'a mut Log,
    loops: usize,
    closures: usize,
    tmp: usize,
    err: Option<String>,
    no_ufcs: bool,
    ufcs_calls: bool,
    index_ovl: Vec<String>, // R16: places whose `x[e]` is an overloaded Index/IndexMut call
    substs: Vec<(String, String)>,
    subst_hits: Vec<usize>,
    after_pats: Vec<String>,   // squashed statement texts after which an `after["..."]` anchor is placed
    after_hits: Vec<usize>,    // how often each pattern matched
    after_occ: Vec<Option<usize>>, // `after[".."]#k`: only the k-th match (1-based, source order) gets the text
}

fn is_cfg(a: &Attribute) -> bool {
    a.path().is_ident("cfg")
}

fn marker(name: &str, k: Option<usize>) -> Stmt {
    let id = syn::Ident::new(name, Span::call_site());
    let ts = match k {
        Some(k) => {
            let lit = proc_macro2::Literal::usize_unsuffixed(k);
            quote!( #id ! ( #lit ) ; )
        },
        None => quote!( #id ! ( ) ; ),
    };
    syn::parse2::<Stmt>(ts).unwrap()
}

fn is_loop_expr(e: &Expr) -> bool {
    matches!(e, Expr::ForLoop(_) | Expr::While(_) | Expr::Loop(_))
}

fn block_like(e: &Expr) -> bool {
    matches!(
        e,
        Expr::Block(_) | Expr::If(_) | Expr::Match(_) | Expr::While(_) | Expr::ForLoop(_) | Expr::Loop(_) | Expr::Unsafe(_)
    )
}

impl<'a> Rw<'a> {
    fn strip_attrs(&mut self, attrs: &mut Vec<Attribute>, whereabouts: &str) -> Result<bool, String> {
        // returns false if the carrier must be dropped (cfg false)
        let mut keep = true;
        let mut out = vec![];
        for a in attrs.drain(..) {
            if is_cfg(&a) {
                let v = self.ctx.cfg.eval_cfg_attr(&a)?;
                self.log.add("R2", "cfg", format!("{} => {} at {}", a.to_token_stream(), v, whereabouts));
                if !v {
                    keep = false;
                }
            } else {
                let name = a.path().to_token_stream().to_string();
                let inert = ["inline", "doc", "allow", "must_use", "rustfmt :: skip", "deprecated", "automatically_derived", "derive", "repr", "macro_export", "educe", "zeroize"];
                let rule = if inert.contains(&name.as_str()) { "R1" } else { "R1*" };
                self.log.add(rule, "drop-attr", format!("{} at {}", a.to_token_stream(), whereabouts));
                let _ = &mut out;
            }
        }
        *attrs = out;
        Ok(keep)
    }

    fn expr_attrs<'b>(e: &'b mut Expr) -> Option<&'b mut Vec<Attribute>> {
        Some(match e {
            Expr::Array(x) => &mut x.attrs,
            Expr::Assign(x) => &mut x.attrs,
            Expr::Binary(x) => &mut x.attrs,
            Expr::Block(x) => &mut x.attrs,
            Expr::Call(x) => &mut x.attrs,
            Expr::ForLoop(x) => &mut x.attrs,
            Expr::If(x) => &mut x.attrs,
            Expr::Loop(x) => &mut x.attrs,
            Expr::Match(x) => &mut x.attrs,
            Expr::MethodCall(x) => &mut x.attrs,
            Expr::Unsafe(x) => &mut x.attrs,
            Expr::While(x) => &mut x.attrs,
            Expr::Macro(x) => &mut x.attrs,
            Expr::Closure(x) => &mut x.attrs,
            Expr::Return(x) => &mut x.attrs,
            _ => return None,
        })
    }

    fn expand_macro(&mut self, mac: &syn::Macro) -> Option<Result<TokenStream, String>> {
        let name = mac.path.segments.last()?.ident.to_string();
        match name.as_str() {
            "assert" | "debug_assert" => {
                // R7: keep as proof obligation: vx_assert(cond) has `requires cond`
                let parser = syn::punctuated::Punctuated::<Expr, syn::Token![,]>::parse_terminated;
                let args = match syn::parse::Parser::parse2(parser, mac.tokens.clone()) {
                    Ok(a) => a,
                    Err(e) => return Some(Err(format!("assert! args: {e}"))),
                };
                let c = args.first()?;
                self.log.add("R7", "assert", format!("{name}!({}) => vx_assert(..)", c.to_token_stream()));
                Some(Ok(quote!( vx_assert(#c) )))
            },
            "assert_eq" | "debug_assert_eq" | "assert_ne" | "debug_assert_ne" => {
                let parser = syn::punctuated::Punctuated::<Expr, syn::Token![,]>::parse_terminated;
                let args = match syn::parse::Parser::parse2(parser, mac.tokens.clone()) {
                    Ok(a) => a,
                    Err(e) => return Some(Err(format!("assert_eq! args: {e}"))),
                };
                let a = &args[0];
                let b = &args[1];
                self.log.add("R7", "assert", format!("{name}!(..) => vx_assert(..)"));
                if name.ends_with("_ne") {
                    Some(Ok(quote!( vx_assert((#a) != (#b)) )))
                } else {
                    Some(Ok(quote!( vx_assert((#a) == (#b)) )))
                }
            },
            "unreachable" | "panic" | "unimplemented" | "todo" => {
                self.log.add("R7", "panic", format!("{name}!(..) => vx_unreachable()"));
                Some(Ok(quote!( vx_unreachable() )))
            },
            "cfg" => {
                let v = match self.ctx.cfg.eval_tokens(mac.tokens.clone()) {
                    Ok(v) => v,
                    Err(e) => return Some(Err(e)),
                };
                self.log.add("R2", "cfg!", format!("cfg!({}) => {}", mac.tokens, v));
                Some(Ok(if v { quote!(true) } else { quote!(false) }))
            },
            _ => {
                let def = self.ctx.macros.get(&name)?;
                let r = mrules::expand(def, mac.tokens.clone());
                if r.is_ok() {
                    self.log.add("R3", "macro_rules", format!("{}!({}) expanded from {}", name, squash(&mac.tokens.to_string()), def.source_file));
                }
                Some(r)
            },
        }
    }
}

impl<'a> VisitMut for Rw<'a> {
    fn visit_block_mut(&mut self, b: &mut Block) {
        let stmts = std::mem::take(&mut b.stmts);
        let mut out: Vec<Stmt> = vec![];
        for mut s in stmts {
            // cfg on statements
            let keep = match &mut s {
                Stmt::Local(l) => self.strip_attrs(&mut l.attrs, "let"),
                Stmt::Expr(e, _) => match Self::expr_attrs(e) {
                    Some(a) => self.strip_attrs(a, "stmt"),
                    None => Ok(true),
                },
                Stmt::Macro(m) => self.strip_attrs(&mut m.attrs, "stmt-macro"),
                Stmt::Item(Item::Use(u)) => {
                    // `use` statements inside fn bodies: dropped when cfg-false, kept otherwise; path prefixes rewritten (R5)
                    let txt = squash(&u.tree.to_token_stream().to_string());
                    for (from, to) in &self.ctx.path_rw {
                        let f = from.join("::");
                        if txt.starts_with(&(f.clone() + "::")) {
                            let rest = &txt[f.len()..];
                            let nt = format!("{}{}", to.join("::"), rest).replace("as", " as ");
                            // `as` only occurs as the rename keyword in these generated `use` lines
                            if let Ok(tree) = syn::parse_str::<syn::UseTree>(&nt) {
                                self.log.add("R5", "use-path", format!("{txt} => {nt}"));
                                u.tree = tree;
                            }
                            break;
                        }
                    }
                    self.strip_attrs(&mut u.attrs, "use")
                },
                Stmt::Item(_) => Ok(true),
            };
            match keep {
                Ok(true) => {},
                Ok(false) => continue,
                Err(e) => {
                    self.err = Some(e);
                    continue;
                },
            }
            // statement macros -> expression statements
            if let Stmt::Macro(m) = &s {
                if let Some(r) = self.expand_macro(&m.mac) {
                    match r {
                        Ok(ts) => match syn::parse2::<Expr>(ts.clone()) {
                            Ok(e) => {
                                let semi = if block_like(&e) && m.semi_token.is_none() { None } else { Some(syn::token::Semi::default()) };
                                s = Stmt::Expr(e, semi);
                            },
                            Err(e) => {
                                self.err = Some(format!("macro expansion does not parse as expr: {e}: {ts}"));
                                continue;
                            },
                        },
                        Err(e) => {
                            self.err = Some(e);
                            continue;
                        },
                    }
                }
            }
            // R13: statement substitution requested by the unit (an operator statement replaced by the method it dispatches to)
            if !self.substs.is_empty() {
                let txt = squash(&s.to_token_stream().to_string());
                let mut replaced = None;
                for (si, (from, to)) in self.substs.iter().enumerate() {
                    if *from == txt {
                        replaced = Some((si, to.clone()));
                    }
                }
                if let Some((si, to)) = replaced {
                    self.subst_hits[si] += 1;
                    self.log.add("R13", "subst-stmt", format!("{txt} => {to}"));
                    match syn::parse_str::<Stmt>(&to) {
                        Ok(ns) => s = ns,
                        // a tail expression (no semicolon) is replaced by a tail expression
                        Err(e) => match syn::parse_str::<Expr>(&to) {
                            Ok(ne) => s = Stmt::Expr(ne, None),
                            Err(_) => {
                                self.err = Some(format!("subst target does not parse: {e}"));
                                continue;
                            },
                        },
                    }
                }
            }
            // R11: `x &= <comparison>` / `x |= <comparison>` on bools (Verus lacks non-short-circuit bool ops):
            //      evaluate the right side first (as Rust does), then combine with && / ||.
            if let Stmt::Expr(Expr::Binary(bin), Some(_)) = &s {
                let is_cmp = |e: &Expr| -> bool {
                    let e = if let Expr::Paren(p) = e { &*p.expr } else { e };
                    matches!(e, Expr::Binary(b) if matches!(b.op, syn::BinOp::Eq(_) | syn::BinOp::Ne(_) | syn::BinOp::Lt(_) | syn::BinOp::Le(_) | syn::BinOp::Gt(_) | syn::BinOp::Ge(_)))
                };
                let which = match bin.op {
                    syn::BinOp::BitAndAssign(_) if is_cmp(&bin.right) => Some(true),
                    syn::BinOp::BitOrAssign(_) if is_cmp(&bin.right) => Some(false),
                    _ => None,
                };
                if let Some(is_and) = which {
                    let tmp = syn::Ident::new(&format!("vx_tmp{}", self.tmp), Span::call_site());
                    self.tmp += 1;
                    let l = &bin.left;
                    let r = &bin.right;
                    let news: Vec<Stmt> = if is_and {
                        vec![syn::parse2(quote!( let #tmp : bool = #r; )).unwrap(), syn::parse2(quote!( #l = #l && #tmp; )).unwrap()]
                    } else {
                        vec![syn::parse2(quote!( let #tmp : bool = #r; )).unwrap(), syn::parse2(quote!( #l = #l || #tmp; )).unwrap()]
                    };
                    self.log.add("R11", "bool-opassign", format!("{}", bin.to_token_stream()));
                    for mut n in news {
                        self.visit_stmt_mut(&mut n);
                        out.push(n);
                    }
                    continue;
                }
            }
            // R9: destructuring assignment `(a, b) = e;`
            if let Stmt::Expr(Expr::Assign(asg), Some(_)) = &s {
                if let Expr::Tuple(t) = &*asg.left {
                    let tmp = syn::Ident::new(&format!("vx_tmp{}", self.tmp), Span::call_site());
                    self.tmp += 1;
                    let rhs = &asg.right;
                    let mut news: Vec<Stmt> = vec![syn::parse2(quote!( let #tmp = #rhs; )).unwrap()];
                    for (k, el) in t.elems.iter().enumerate() {
                        let idx = syn::Index::from(k);
                        news.push(syn::parse2(quote!( #el = #tmp . #idx ; )).unwrap());
                    }
                    self.log.add("R9", "destructuring-assign", format!("{}", asg.to_token_stream()));
                    let orig_text = if self.after_pats.is_empty() { String::new() } else { squash(&s.to_token_stream().to_string()) };
                    for mut n in news {
                        self.visit_stmt_mut(&mut n);
                        out.push(n);
                    }
                    // `after["(a, b) = e;"]` anchors refer to the source statement
                    for (pi, pat) in self.after_pats.clone().iter().enumerate() {
                        if *pat == orig_text {
                            self.after_hits[pi] += 1;
                            if self.after_occ[pi].map_or(true, |k| self.after_hits[pi] == k) {
                                out.push(marker("__vx_after", Some(pi)));
                            }
                        }
                    }
                    continue;
                }
            }
            // R17: `for _ in RANGE` => `for vx_iK in RANGE` (names the unused binder so that contracts can count iterations)
            if let Stmt::Expr(Expr::ForLoop(f), _) = &mut s {
                if matches!(&*f.pat, syn::Pat::Wild(_)) {
                    let k = self.loops;
                    let id = syn::Ident::new(&format!("vx_i{k}"), Span::call_site());
                    *f.pat = syn::Pat::Ident(syn::PatIdent { attrs: vec![], by_ref: None, mutability: None, ident: id.clone(), subpat: None });
                    self.log.add("R17", "for-wild", format!("for _ in .. => for {id} in .."));
                }
            }
            // R15: `for PAT in E.iter_mut().rev() BODY` (or `E.iter().rev()`, with `&E[..]`) => descending index loop over `E` (a slice, array or Vec place):
            //      `let mut vx_itK: usize = E.len(); while vx_itK > 0 { vx_itK -= 1; let PAT = &mut E[vx_itK]; BODY }`
            if let Stmt::Expr(Expr::ForLoop(f), _) = &s {
                if let Some((place, is_mut)) = iter_mut_rev_place(&f.expr) {
                    if f.label.is_none() {
                        let k = self.loops;
                        let it = syn::Ident::new(&format!("vx_it{k}"), Span::call_site());
                        let pat = &f.pat;
                        let body_stmts = &f.body.stmts;
                        self.log.add("R15", "iter-mut-rev", format!("for {} in {} => descending index loop over {}", squash(&pat.to_token_stream().to_string()), squash(&f.expr.to_token_stream().to_string()), squash(&place.to_token_stream().to_string())));
                        let l: Stmt = syn::parse2(quote!( let mut #it: usize = #place.len(); )).unwrap();
                        out.push(l);
                        let w: Expr = if is_mut {
                            syn::parse2(quote!( while #it > 0 { #it -= 1; let #pat = &mut #place[#it]; #(#body_stmts)* } )).unwrap()
                        } else {
                            syn::parse2(quote!( while #it > 0 { #it -= 1; let #pat = &#place[#it]; #(#body_stmts)* } )).unwrap()
                        };
                        s = Stmt::Expr(w, None);
                    }
                }
            }
            let loop_id = match &s {
                Stmt::Expr(e, _) if is_loop_expr(e) => Some(self.loops),
                _ => None,
            };
            if let Some(k) = loop_id {
                out.push(marker("__vx_loop_before", Some(k)));
            }
            let stmt_text = if self.after_pats.is_empty() { String::new() } else { squash(&s.to_token_stream().to_string()) };
            self.visit_stmt_mut(&mut s);
            out.push(s);
            for (pi, pat) in self.after_pats.clone().iter().enumerate() {
                if *pat == stmt_text {
                    self.after_hits[pi] += 1;
                    if self.after_occ[pi].map_or(true, |k| self.after_hits[pi] == k) {
                        out.push(marker("__vx_after", Some(pi)));
                    }
                }
            }
            if let Some(k) = loop_id {
                out.push(marker("__vx_loop_after", Some(k)));
            }
        }
        b.stmts = out;
    }

    fn visit_expr_mut(&mut self, e: &mut Expr) {
        // attributes on inner expressions (cfg on block expressions in tail position etc.)
        if let Some(a) = Self::expr_attrs(e) {
            if !a.is_empty() {
                match self.strip_attrs(a, "expr") {
                    Ok(true) => {},
                    Ok(false) => {
                        // a cfg-false expression in tail position: replace by unit block; the
                        // surviving sibling provides the value (pattern used in arithmetic.rs)
                        *e = syn::parse2(quote!({})).unwrap();
                        self.log.add("R2", "cfg-false-expr", "replaced by {}".into());
                        return;
                    },
                    Err(er) => self.err = Some(er),
                }
            }
        }
        // R6: whole-expression instantiation (paths to abstract constants, e.g. `P::BaseField::ONE` => `F::one()`)
        if matches!(e, Expr::Path(_) | Expr::Call(_) | Expr::MethodCall(_) | Expr::Binary(_) | Expr::Unary(_)) && !self.ctx.expr_rw.is_empty() {
            let txt = squash(&e.to_token_stream().to_string());
            for (from, to) in &self.ctx.expr_rw {
                if *from == txt {
                    self.log.add("R6", "expr", format!("{txt} => {to}"));
                    *e = syn::parse_str(to).unwrap_or_else(|er| die(&format!("expr rewrite target `{to}`: {er}")));
                    return;
                }
            }
        }
        // macros
        if let Expr::Macro(m) = e {
            if let Some(r) = self.expand_macro(&m.mac) {
                match r {
                    Ok(ts) => match syn::parse2::<Expr>(ts.clone()) {
                        Ok(ne) => {
                            *e = ne;
                            self.visit_expr_mut(e);
                            return;
                        },
                        Err(er) => {
                            self.err = Some(format!("macro expansion does not parse as expr: {er}: {ts}"));
                            return;
                        },
                    },
                    Err(er) => {
                        self.err = Some(er);
                        return;
                    },
                }
            }
        }
        // loops
        if is_loop_expr(e) {
            let k = self.loops;
            self.loops += 1;
            // visit header first, then body
            match e {
                Expr::ForLoop(f) => {
                    self.visit_expr_mut(&mut f.expr);
                    self.visit_block_mut(&mut f.body);
                    wrap_loop_body(&mut f.body, k);
                },
                Expr::While(w) => {
                    self.visit_expr_mut(&mut w.cond);
                    self.visit_block_mut(&mut w.body);
                    wrap_loop_body(&mut w.body, k);
                },
                Expr::Loop(l) => {
                    self.visit_block_mut(&mut l.body);
                    wrap_loop_body(&mut l.body, k);
                },
                _ => unreachable!(),
            }
            return;
        }
        // closures: number them, make the body a block carrying head/end markers
        if let Expr::Closure(c) = e {
            let k = self.closures;
            self.closures += 1;
            self.visit_expr_mut(&mut c.body);
            let body = (*c.body).clone();
            let mut blk: Block = match body {
                Expr::Block(b) if b.label.is_none() => b.block,
                other => syn::parse2(quote!({ #other })).unwrap(),
            };
            let tail_is_value = matches!(blk.stmts.last(), Some(Stmt::Expr(_, None)));
            if tail_is_value {
                let t = blk.stmts.pop().unwrap();
                blk.stmts.push(marker("__vx_closure_end", Some(k)));
                blk.stmts.push(t);
            } else {
                blk.stmts.push(marker("__vx_closure_end", Some(k)));
            }
            // R14: destructuring closure parameters `|(x, y)| e` => `|vx_cp0| { let (x, y) = vx_cp0; e }`
            let mut lets: Vec<Stmt> = vec![];
            for (pi, inp) in c.inputs.iter_mut().enumerate() {
                let is_simple = match inp {
                    syn::Pat::Ident(_) => true,
                    syn::Pat::Type(t) => matches!(&*t.pat, syn::Pat::Ident(_)),
                    _ => false,
                };
                if !is_simple {
                    let id = syn::Ident::new(&format!("vx_cp{}_{}", k, pi), Span::call_site());
                    let old = inp.clone();
                    lets.push(syn::parse2(quote!( let #old = #id; )).unwrap());
                    *inp = syn::Pat::Ident(syn::PatIdent { attrs: vec![], by_ref: None, mutability: None, ident: id.clone(), subpat: None });
                    self.log.add("R14", "closure-pattern", format!("{} => {}", old.to_token_stream(), id));
                }
            }
            for (li, l) in lets.into_iter().enumerate() {
                blk.stmts.insert(li, l);
            }
            blk.stmts.insert(0, marker("__vx_closure_head", Some(k)));
            *c.body = Expr::Block(syn::ExprBlock { attrs: vec![], label: None, block: blk });
            return;
        }
        // R16: overloaded indexing on the places named by `index_ovl=`: `x[e] = v` => `*x.index_mut(e) = v`,
        //      `x[e]` (read) => `(*x.index(e))` -- Rust's definition of Index / IndexMut; `index`, `index_mut` are extracted units
        if !self.index_ovl.is_empty() {
            let is_ovl = |x: &Expr, names: &Vec<String>| -> bool {
                if let Expr::Index(ix) = x {
                    if let Expr::Path(p) = &*ix.expr {
                        if let Some(id) = p.path.get_ident() {
                            return names.iter().any(|n| id == n);
                        }
                    }
                }
                false
            };
            if let Expr::Assign(a) = e {
                if is_ovl(&a.left, &self.index_ovl) {
                    if let Expr::Index(ix) = &*a.left {
                        let base = &ix.expr;
                        let idx = &ix.index;
                        self.log.add("R16", "index-mut", format!("{} = .. => *{}.index_mut({}) = ..", squash(&a.left.to_token_stream().to_string()), squash(&base.to_token_stream().to_string()), squash(&idx.to_token_stream().to_string())));
                        let nl: Expr = syn::parse2(quote!( *#base.index_mut(#idx) )).unwrap();
                        *a.left = nl;
                        // the (rewritten) assignee is not visited again; its index expression is
                        if let Expr::Unary(u) = &mut *a.left {
                            if let Expr::MethodCall(m) = &mut *u.expr {
                                for arg in m.args.iter_mut() {
                                    self.visit_expr_mut(arg);
                                }
                            }
                        }
                        self.visit_expr_mut(&mut a.right);
                        return;
                    }
                }
            }
            // `&mut x[e]` => `x.index_mut(e)` (a reborrow of the returned reference)
            if let Expr::Reference(rf) = e {
                if rf.mutability.is_some() && is_ovl(&rf.expr, &self.index_ovl) {
                    if let Expr::Index(ix) = &*rf.expr {
                        let base = ix.expr.clone();
                        let idx = ix.index.clone();
                        self.log.add("R16", "index-mut-ref", format!("&mut {} => {}.index_mut({})", squash(&rf.expr.to_token_stream().to_string()), squash(&base.to_token_stream().to_string()), squash(&idx.to_token_stream().to_string())));
                        *e = syn::parse2(quote!( #base.index_mut(#idx) )).unwrap();
                        if let Expr::MethodCall(m) = e {
                            for arg in m.args.iter_mut() {
                                self.visit_expr_mut(arg);
                            }
                        }
                        return;
                    }
                }
            }
            if is_ovl(e, &self.index_ovl) {
                if let Expr::Index(ix) = e {
                    let base = ix.expr.clone();
                    let idx = ix.index.clone();
                    self.log.add("R16", "index", format!("{} => (*{}.index({}))", squash(&e.to_token_stream().to_string()), squash(&base.to_token_stream().to_string()), squash(&idx.to_token_stream().to_string())));
                    *e = syn::parse2(quote!( (*#base.index(#idx)) )).unwrap();
                    if let Expr::Paren(pa) = e {
                        if let Expr::Unary(u) = &mut *pa.expr {
                            if let Expr::MethodCall(m) = &mut *u.expr {
                                for arg in m.args.iter_mut() {
                                    self.visit_expr_mut(arg);
                                }
                            }
                        }
                    }
                    return;
                }
            }
        }
        // R4: a op &b  =>  core::ops::Op::op(a, &b)
        if !self.no_ufcs {
            if let Expr::Binary(b) = e {
                if matches!(&*b.right, Expr::Reference(_)) || (self.ufcs_calls && matches!(&*b.right, Expr::Call(_) | Expr::MethodCall(_))) {
                    let path = match b.op {
                        syn::BinOp::Add(_) => Some(quote!(core::ops::Add::add)),
                        syn::BinOp::Sub(_) => Some(quote!(core::ops::Sub::sub)),
                        syn::BinOp::Mul(_) => Some(quote!(core::ops::Mul::mul)),
                        _ => None,
                    };
                    if let Some(p) = path {
                        let l = &b.left;
                        let r = &b.right;
                        self.log.add("R4", "ufcs", format!("{}", squash(&b.to_token_stream().to_string())));
                        *e = syn::parse2(quote!( #p ( #l , #r ) )).unwrap();
                        self.visit_expr_mut(e);
                        return;
                    }
                }
            }
        }
        // method-name rewrites
        if let Expr::MethodCall(mc) = e {
            for (from, to) in &self.ctx.method_rw {
                if mc.method == from {
                    self.log.add("R5", "method-rename", format!(".{from}( => .{to}("));
                    mc.method = syn::Ident::new(to, mc.method.span());
                }
            }
        }
        visit_mut::visit_expr_mut(self, e);
    }

    fn visit_type_mut(&mut self, t: &mut syn::Type) {
        let txt = squash(&t.to_token_stream().to_string());
        for (from, to) in &self.ctx.type_rw {
            if *from == txt {
                self.log.add("R6", "type", format!("{txt} => {to}"));
                *t = syn::parse_str(to).unwrap_or_else(|e| die(&format!("type rewrite target `{to}`: {e}")));
                return;
            }
        }
        if let syn::Type::Path(tp) = t {
            if tp.qself.is_none() {
                if let Some(last) = tp.path.segments.last() {
                    if self.ctx.unwrap_types.contains(&last.ident.to_string()) {
                        if let syn::PathArguments::AngleBracketed(ab) = &last.arguments {
                            if let Some(syn::GenericArgument::Type(inner)) = ab.args.first() {
                                let inner = inner.clone();
                                self.log.add("R6", "unwrap-type", format!("{} => {}", squash(&tp.to_token_stream().to_string()), squash(&inner.to_token_stream().to_string())));
                                *t = inner;
                                self.visit_type_mut(t);
                                return;
                            }
                        }
                    }
                }
            }
        }
        visit_mut::visit_type_mut(self, t);
    }

    fn visit_path_mut(&mut self, p: &mut syn::Path) {
        let segs: Vec<String> = p.segments.iter().map(|s| s.ident.to_string()).collect();
        for (from, to) in &self.ctx.path_rw {
            if segs.len() >= from.len() && segs[..from.len()] == from[..] {
                // keep generic args only of the non-rewritten tail
                let tail: Vec<syn::PathSegment> = p.segments.iter().skip(from.len()).cloned().collect();
                let mut ns: syn::punctuated::Punctuated<syn::PathSegment, syn::Token![::]> = Default::default();
                for t in to {
                    ns.push(syn::PathSegment::from(syn::Ident::new(t, Span::call_site())));
                }
                // generic arguments of the last rewritten segment move to the last target segment
                if let (Some(last_from), Some(last_to)) = (p.segments.iter().nth(from.len() - 1), ns.last_mut()) {
                    last_to.arguments = last_from.arguments.clone();
                }
                for t in tail {
                    ns.push(t);
                }
                if ns.is_empty() {
                    continue;
                }
                self.log.add("R5", "path", format!("{} => {}", segs.join("::"), ns.to_token_stream().to_string().replace(' ', "")));
                p.segments = ns;
                if !to.is_empty() || from.first().map(|s| s.as_str()) == Some("crate") {
                    p.leading_colon = None;
                }
                break;
            }
        }
        visit_mut::visit_path_mut(self, p);
    }
}

/// `E.iter_mut().rev()` => Some((E, true)),  `E.iter().rev()` => Some((E, false))
fn iter_mut_rev_place(e: &Expr) -> Option<(Expr, bool)> {
    if let Expr::MethodCall(m) = e {
        if m.method == "rev" && m.args.is_empty() {
            if let Expr::MethodCall(m2) = &*m.receiver {
                if (m2.method == "iter_mut" || m2.method == "iter") && m2.args.is_empty() {
                    return Some(((*m2.receiver).clone(), m2.method == "iter_mut"));
                }
            }
        }
    }
    None
}

fn wrap_loop_body(body: &mut Block, k: usize) {
    // make sure a trailing expression is a statement, then add markers
    if let Some(Stmt::Expr(e, semi)) = body.stmts.last_mut() {
        if semi.is_none() && !block_like(e) {
            *semi = Some(syn::token::Semi::default());
        }
    }
    body.stmts.insert(0, marker("__vx_loop_head", Some(k)));
    body.stmts.push(marker("__vx_loop_end", Some(k)));
}

// ---------------------------------------------------------------- unit generation

#[derive(Default, Clone)]
struct UnitSpec {
    name: String,
    file: String,
    sel: String,
    ret: String,
    rename: Option<String>,
    external_body: bool,
    keep_pub: bool,
    no_ufcs: bool,
    ufcs_calls: bool,
    index_ovl: Vec<String>,
    drop_generics: Vec<String>,
    spec: String,
    anchors: BTreeMap<String, String>,
    open_attrs: String, // extra attributes to print before the fn
    drop_const: bool,
    substs: Vec<(String, String)>, // R13: statement-level substitution (operator -> the method it dispatches to)
    self_ty: Option<String>,  // R12: `Self` => this type parameter (trait default method verified as generic free fn)
    generics: Option<String>, // generic parameters to prepend
}

fn rustfmt(src: &str) -> String {
    let mut child = Command::new("rustfmt")
        .args(["--edition", "2021", "--config", "max_width=150,use_small_heuristics=Max"])
        .stdin(Stdio::piped())
        .stdout(Stdio::piped())
        .stderr(Stdio::piped())
        .spawn()
        .unwrap_or_else(|e| die(&format!("cannot run rustfmt: {e}")));
    child.stdin.as_mut().unwrap().write_all(src.as_bytes()).unwrap();
    let out = child.wait_with_output().unwrap();
    if !out.status.success() {
        die(&format!("unsupported-construct: rustfmt failed: {}\n----\n{}", String::from_utf8_lossy(&out.stderr), src));
    }
    String::from_utf8(out.stdout).unwrap()
}

fn gen_unit(ctx: &mut Ctx, u: &UnitSpec, report: &mut Vec<serde_json::Value>) -> String {
    let found = select(ctx, &u.file, &u.sel);
    let mut log = Log::default();
    let mut fp = match found {
        Found::Fn(f) => f,
        Found::Item(_) => die(&format!("anchor-lost: unit {} selects a non-fn item", u.name)),
    };
    let orig_tokens = {
        let mut ts = TokenStream::new();
        for a in &fp.attrs {
            a.to_tokens(&mut ts);
        }
        fp.sig.to_tokens(&mut ts);
        fp.block.to_tokens(&mut ts);
        ts.to_string()
    };
    let sha = format!("{:x}", Sha256::digest(orig_tokens.as_bytes()));

    // `after["stmt"]`, `after*["stmt"]` (every match) and `after["stmt"]#k` (k-th match only)
    fn split_after(k: &str) -> Option<(String, bool, Option<usize>)> {
        let (body, occ) = match k.rfind("\"]#") {
            Some(i) => (&k[..i + 2], k[i + 3..].parse::<usize>().ok()),
            None => (k, None),
        };
        let multi = body.starts_with("after*[\"");
        let r = body.strip_prefix("after[\"").or_else(|| body.strip_prefix("after*[\""))?;
        let p = r.strip_suffix("\"]")?;
        Some((squash(p), multi, occ))
    }
    let after_keys: Vec<String> = u.anchors.keys().filter(|k| split_after(k).is_some()).cloned().collect();
    let after_pats: Vec<String> = after_keys.iter().map(|k| split_after(k).unwrap().0).collect();
    let after_multi: Vec<bool> = after_keys.iter().map(|k| split_after(k).unwrap().1).collect();
    let after_occ: Vec<Option<usize>> = after_keys.iter().map(|k| split_after(k).unwrap().2).collect();
    let n_after = after_pats.len();
    let mut rw = Rw { ctx, log: &mut log, loops: 0, closures: 0, tmp: 0, err: None, no_ufcs: u.no_ufcs, ufcs_calls: u.ufcs_calls, index_ovl: u.index_ovl.clone(), substs: u.substs.clone(), subst_hits: vec![0; u.substs.len()], after_pats, after_hits: vec![0; n_after], after_occ: after_occ.clone() };
    // fn-level attributes
    match rw.strip_attrs(&mut fp.attrs, "fn") {
        Ok(true) => {},
        Ok(false) => die(&format!("anchor-lost: unit {} is cfg'd out for the pinned build", u.name)),
        Err(e) => die(&format!("unsupported-construct: {e}")),
    }
    for inp in fp.sig.inputs.iter_mut() {
        match inp {
            syn::FnArg::Typed(t) => {
                t.attrs.clear();
            },
            syn::FnArg::Receiver(r) => {
                r.attrs.clear();
            },
        }
    }
    rw.visit_signature_mut(&mut fp.sig);
    if !u.external_body {
        rw.visit_block_mut(&mut fp.block);
    }
    // R10: `mut self` (by value) => `self` + `let mut vx_self = self;`, uses renamed (binding mutability only)
    let mut_self = matches!(fp.sig.inputs.first(), Some(syn::FnArg::Receiver(r)) if r.reference.is_none() && r.mutability.is_some());
    if mut_self {
        if let Some(syn::FnArg::Receiver(r)) = fp.sig.inputs.first_mut() {
            r.mutability = None;
        }
    }
    if mut_self && !u.external_body {
        struct SelfRename;
        impl VisitMut for SelfRename {
            fn visit_ident_mut(&mut self, i: &mut syn::Ident) {
                if i == "self" {
                    *i = syn::Ident::new("vx_self", i.span());
                }
            }
            fn visit_macro_mut(&mut self, _m: &mut syn::Macro) {}
        }
        SelfRename.visit_block_mut(&mut fp.block);
        fp.block.stmts.insert(0, syn::parse2(quote!( let mut vx_self = self; )).unwrap());
        rw.log.add("R10", "mut-self", "`mut self` => `self` + `let mut vx_self = self;`".into());
    }
    let nclosures = rw.closures;
    let nloops = rw.loops;
    for (si, h) in rw.subst_hits.iter().enumerate() {
        if *h == 0 {
            // the statement the substitution is about is gone: nothing to substitute; the body is verified as it stands
            rw.log.add("R13", "subst-unused", format!("pattern `{}` matched no statement", rw.substs[si].0));
        }
    }
    let after_pats_final = rw.after_pats.clone();
    let after_hits_final = rw.after_hits.clone();
    if let Some(e) = rw.err.take() {
        die(&format!("unsupported-construct in {}: {e}", u.name));
    }

    if u.drop_const && fp.sig.constness.is_some() {
        fp.sig.constness = None;
        log.add("R1", "drop-const", "`const` qualifier dropped (inert for run-time semantics)".into());
    }
    // R12: trait default method as a generic free function over an arbitrary implementor
    if let Some(t) = &u.self_ty {
        struct SelfTy(String);
        impl VisitMut for SelfTy {
            fn visit_ident_mut(&mut self, i: &mut syn::Ident) {
                if i == "Self" {
                    *i = syn::Ident::new(&self.0, i.span());
                }
            }
        }
        let mut v = SelfTy(t.clone());
        v.visit_signature_mut(&mut fp.sig);
        v.visit_block_mut(&mut fp.block);
        log.add("R12", "self-type", format!("`Self` => `{t}` (default method verified for an arbitrary implementor)"));
    }
    // R6: type parameters instantiated by a concrete view type of the same name are removed from the signature
    if !u.drop_generics.is_empty() {
        let kept: syn::punctuated::Punctuated<syn::GenericParam, syn::token::Comma> = fp.sig.generics.params.iter().filter(|p| match p {
            syn::GenericParam::Type(t) => !u.drop_generics.iter().any(|d| t.ident == d),
            _ => true,
        }).cloned().collect();
        log.add("R6", "drop-generics", format!("type parameter(s) {} instantiated by the view type of the same name", u.drop_generics.join(", ")));
        fp.sig.generics.params = kept;
        if fp.sig.generics.params.is_empty() {
            fp.sig.generics.lt_token = None;
            fp.sig.generics.gt_token = None;
        }
    }
    if let Some(g) = &u.generics {
        let gen: syn::Generics = syn::parse_str(g).unwrap_or_else(|e| die(&format!("generics option `{g}`: {e}")));
        let mut params = gen.params.clone();
        for p in fp.sig.generics.params.iter() {
            params.push(p.clone());
        }
        fp.sig.generics.params = params;
        if fp.sig.generics.lt_token.is_none() {
            fp.sig.generics.lt_token = Some(Default::default());
            fp.sig.generics.gt_token = Some(Default::default());
        }
    }
    // R2b: a bare block that is the tail of the function body (what remains of a
    // `#[cfg(..)] { .. }` pair) is inlined; scoping is unchanged because nothing follows it.
    loop {
        let inline = match fp.block.stmts.last() {
            Some(Stmt::Expr(Expr::Block(b), None)) if b.label.is_none() && b.attrs.is_empty() => true,
            _ => false,
        };
        if !inline {
            break;
        }
        if let Some(Stmt::Expr(Expr::Block(b), None)) = fp.block.stmts.pop() {
            log.add("R2", "inline-tail-block", "tail block of fn body inlined".into());
            fp.block.stmts.extend(b.block.stmts);
        }
    }
    // fn markers
    let has_ret = !matches!(fp.sig.output, syn::ReturnType::Default);
    if u.external_body {
        fp.block = syn::parse2(quote!({ __vx_fn_head!(); unimplemented!() })).unwrap();
    } else {
        let mut stmts = std::mem::take(&mut fp.block.stmts);
        let tail_is_value = has_ret && matches!(stmts.last(), Some(Stmt::Expr(_, None)));
        if tail_is_value {
            let tail = stmts.pop().unwrap();
            stmts.push(marker("__vx_fn_end", None));
            stmts.push(tail);
        } else {
            if let Some(Stmt::Expr(e, semi)) = stmts.last_mut() {
                if semi.is_none() && !block_like(e) {
                    *semi = Some(syn::token::Semi::default());
                }
            }
            stmts.push(marker("__vx_fn_end", None));
        }
        stmts.insert(0, marker("__vx_fn_head", None));
        fp.block.stmts = stmts;
    }

    // signature: name the return value, pull the where clause out
    let mut sig = fp.sig.clone();
    if let Some(r) = &u.rename {
        log.add("R5", "rename-fn", format!("{} => {}", sig.ident, r));
        sig.ident = syn::Ident::new(r, sig.ident.span());
    }
    let where_clause = sig.generics.where_clause.take();
    if let syn::ReturnType::Type(arrow, ty) = &sig.output {
        let t = ty.clone();
        sig.output = syn::ReturnType::Type(*arrow, Box::new(syn::parse2(quote!( __VxRet<#t> )).unwrap()));
    }
    let block = &fp.block;
    let src = format!("impl __VxWrap {{ {} {} }}", sig.to_token_stream(), block.to_token_stream());
    let formatted = rustfmt(&src);
    // unwrap the impl
    let mut lines: Vec<&str> = formatted.lines().collect();
    if lines.first().map(|l| l.starts_with("impl __VxWrap")).unwrap_or(false) {
        lines.remove(0);
        while let Some(l) = lines.last() {
            if l.trim().is_empty() {
                lines.pop();
            } else {
                break;
            }
        }
        lines.pop();
    }
    let mut text: String = lines.iter().map(|l| l.strip_prefix("    ").unwrap_or(l)).collect::<Vec<_>>().join("\n");
    text.push('\n');

    // named return
    let re_ret = Regex::new(r"(?s)->\s*__VxRet<(.*?)>\s*\{\s*__vx_fn_head!\(\);").unwrap();
    if has_ret {
        let caps = re_ret.captures(&text).unwrap_or_else(|| die(&format!("internal: return marker lost in {}", u.name)));
        let ty = caps.get(1).unwrap().as_str().to_string();
        let rep = format!("-> ({}: {}) {{\n    __vx_fn_head!();", u.ret, ty);
        text = re_ret.replace(&text, regex::NoExpand(&rep)).to_string();
    }
    // spec + where clause
    let re_head = Regex::new(r"\{\s*__vx_fn_head!\(\);").unwrap();
    let wc = where_clause.map(|w| format!("\n    {}", w.to_token_stream())).unwrap_or_default();
    let spec = if u.spec.trim().is_empty() { String::new() } else { format!("\n{}", u.spec.trim_end()) };
    let begin = u.anchors.get("fn.begin").cloned().unwrap_or_default();
    let rep = format!("{wc}{spec}\n{{\n{begin}");
    if !re_head.is_match(&text) {
        die(&format!("internal: fn head marker lost in {}", u.name));
    }
    text = re_head.replace(&text, regex::NoExpand(&rep)).to_string();
    let end = u.anchors.get("fn.end").cloned().unwrap_or_default();
    text = text.replace("__vx_fn_end!();", end.trim_end());
    for k in 0..nloops {
        let inv = u.anchors.get(&format!("loop[{k}].inv")).cloned().unwrap_or_default();
        let b = u.anchors.get(&format!("loop[{k}].begin")).cloned().unwrap_or_default();
        let e = u.anchors.get(&format!("loop[{k}].end")).cloned().unwrap_or_default();
        let a = u.anchors.get(&format!("loop[{k}].after")).cloned().unwrap_or_default();
        let re = Regex::new(&format!(r"\{{\s*__vx_loop_head!\({k}\);")).unwrap();
        let rep = if inv.trim().is_empty() { format!("{{\n{b}") } else { format!("\n{}\n{{\n{b}", inv.trim_end()) };
        text = re.replace(&text, regex::NoExpand(&rep)).to_string();
        text = text.replace(&format!("__vx_loop_end!({k});"), e.trim_end());
        text = text.replace(&format!("__vx_loop_after!({k});"), a.trim_end());
        let bf = u.anchors.get(&format!("loop[{k}].before")).cloned().unwrap_or_default();
        text = text.replace(&format!("__vx_loop_before!({k});"), bf.trim_end());
    }
    for k in 0..nclosures {
        let sp = u.anchors.get(&format!("closure[{k}].spec")).cloned().unwrap_or_default();
        let b = u.anchors.get(&format!("closure[{k}].begin")).cloned().unwrap_or_default();
        let e = u.anchors.get(&format!("closure[{k}].end")).cloned().unwrap_or_default();
        let re = Regex::new(&format!(r"\{{\s*__vx_closure_head!\({k}\);")).unwrap();
        let rep = if sp.trim().is_empty() { format!("{{\n{b}") } else { format!("{}\n{{\n{b}", sp.trim_end()) };
        text = re.replace(&text, regex::NoExpand(&rep)).to_string();
        text = text.replace(&format!("__vx_closure_end!({k});"), e.trim_end());
    }
    for (pi, pat) in after_pats_final.iter().enumerate() {
        let bad = match after_occ[pi] {
            Some(k) => after_hits_final[pi] < k || k == 0,
            None => after_hits_final[pi] == 0 || (after_hits_final[pi] != 1 && !after_multi[pi]),
        };
        if bad {
            die(&format!("anchor-lost: unit {} `after[..]` pattern `{}` matched {} statements (need exactly 1, >= 1 for after*, >= k for #k)", u.name, pat, after_hits_final[pi]));
        }
        let key = after_keys[pi].clone();
        text = text.replace(&format!("__vx_after!({pi});"), u.anchors[&key].trim_end());
    }
    for key in u.anchors.keys() {
        let ok = key == "fn.begin"
            || key.starts_with("after[")
            || key.starts_with("after*[")
            || (0..nclosures).any(|k| [format!("closure[{k}].spec"), format!("closure[{k}].begin"), format!("closure[{k}].end")].contains(key))
            || key == "fn.end"
            || (0..nloops).any(|k| {
                [format!("loop[{k}].inv"), format!("loop[{k}].begin"), format!("loop[{k}].end"), format!("loop[{k}].after"), format!("loop[{k}].before")].contains(key)
            });
        if !ok {
            die(&format!("anchor-lost: unit {} has contract text for `{}` but the function has {} loops", u.name, key, nloops));
        }
    }
    if text.contains("__vx_") || text.contains("__VxRet") {
        die(&format!("internal: unreplaced marker in {}", u.name));
    }
    let mut head = String::new();
    if u.external_body {
        head.push_str("#[verifier::external_body]\n");
    }
    if !u.open_attrs.is_empty() {
        head.push_str(&u.open_attrs);
        head.push('\n');
    }
    if u.keep_pub {
        head.push_str("pub ");
    }
    report.push(serde_json::json!({
        "unit": u.name, "file": u.file, "selector": u.sel, "lines": [fp.span.0, fp.span.1],
        "sha256_tokens": sha, "loops": nloops, "external_body": u.external_body,
        "rewrites": log.entries,
    }));
    format!("// ---- unit {} <- {}:{}-{} ----\n{}{}// ---- end unit {} ----\n", u.name, u.file, fp.span.0, fp.span.1, head, text, u.name)
}

fn gen_item(ctx: &mut Ctx, file: &str, sel: &str, strip_generics: bool, report: &mut Vec<serde_json::Value>) -> String {
    let found = select(ctx, file, sel);
    let mut log = Log::default();
    let it = match found {
        Found::Item(i) => i,
        Found::Fn(_) => die("item directive selected a fn"),
    };
    let mut it = it;
    // drop attributes and visibility-insensitive derive machinery (R1), keep the definition verbatim
    let mut dropped = vec![];
    match &mut it {
        Item::Struct(s) => {
            for a in s.attrs.drain(..) {
                dropped.push(a.to_token_stream().to_string());
            }
            // restricted visibility (`pub(super)`, `pub(crate)`, `pub(in ..)`) => `pub` (R1: the bundle is one flat module)
            if let syn::Visibility::Restricted(_) = s.vis {
                s.vis = syn::parse_quote!(pub);
                log.add("R1", "visibility", format!("struct {}: restricted visibility => pub", s.ident));
            }
            for f in s.fields.iter_mut() {
                for a in f.attrs.drain(..) {
                    dropped.push(a.to_token_stream().to_string());
                }
                if let syn::Visibility::Restricted(_) = f.vis {
                    f.vis = syn::parse_quote!(pub);
                }
            }
        },
        Item::Enum(s) => {
            for a in s.attrs.drain(..) {
                dropped.push(a.to_token_stream().to_string());
            }
            for v in s.variants.iter_mut() {
                for a in v.attrs.drain(..) {
                    dropped.push(a.to_token_stream().to_string());
                }
            }
        },
        Item::Const(s) => {
            for a in s.attrs.drain(..) {
                dropped.push(a.to_token_stream().to_string());
            }
        },
        _ => {},
    }
    for d in dropped {
        log.add("R1", "drop-attr", d);
    }
    if strip_generics {
        if let Item::Struct(st) = &mut it {
            log.add("R6", "strip-generics", format!("{}", st.generics.to_token_stream()));
            st.generics = Default::default();
        }
    }
    let mut rw = Rw { ctx, log: &mut log, loops: 0, closures: 0, tmp: 0, err: None, no_ufcs: false, ufcs_calls: false, index_ovl: vec![], substs: vec![], subst_hits: vec![], after_pats: vec![], after_hits: vec![], after_occ: vec![] };
    rw.visit_item_mut(&mut it);
    let toks = it.to_token_stream().to_string();
    let sha = format!("{:x}", Sha256::digest(toks.as_bytes()));
    let formatted = match &it {
        Item::Verbatim(ts) => {
            let f = rustfmt(&format!("impl __VxWrap {{ {} }}", ts));
            let mut lines: Vec<&str> = f.lines().collect();
            lines.remove(0);
            lines.pop();
            lines.iter().map(|l| l.strip_prefix("    ").unwrap_or(l)).collect::<Vec<_>>().join("\n") + "\n"
        },
        _ => rustfmt(&toks),
    };
    report.push(serde_json::json!({"item": sel, "file": file, "sha256_tokens": sha, "rewrites": log.entries}));
    format!("// ---- item {sel} <- {file} ----\n{formatted}")
}

// ---------------------------------------------------------------- bundle parsing

fn parse_kv(s: &str) -> BTreeMap<String, String> {
    // key=value  key="quoted value"
    let mut m = BTreeMap::new();
    let re = Regex::new(r#"(\w+)=("([^"]*)"|\S+)"#).unwrap();
    for c in re.captures_iter(s) {
        let k = c.get(1).unwrap().as_str().to_string();
        let v = c.get(3).map(|x| x.as_str().to_string()).unwrap_or_else(|| c.get(2).unwrap().as_str().to_string());
        m.insert(k, v);
    }
    m
}

fn main() {
    let args: Vec<String> = std::env::args().collect();
    if args.len() < 3 || args[1] != "gen" {
        eprintln!("usage: vx gen <bundle.vxb> --repo DIR --out FILE --report FILE [--probe] [--verif DIR]");
        std::process::exit(2);
    }
    let bundle_path = args[2].clone();
    let mut repo = "/repo".to_string();
    let mut out_path = String::new();
    let mut report_path = String::new();
    let mut probe = false;
    let mut verif_dir = "/verif".to_string();
    let mut i = 3;
    while i < args.len() {
        match args[i].as_str() {
            "--repo" => {
                repo = args[i + 1].clone();
                i += 2;
            },
            "--out" => {
                out_path = args[i + 1].clone();
                i += 2;
            },
            "--report" => {
                report_path = args[i + 1].clone();
                i += 2;
            },
            "--verif" => {
                verif_dir = args[i + 1].clone();
                i += 2;
            },
            "--probe" => {
                probe = true;
                i += 1;
            },
            x => die(&format!("unknown arg {x}")),
        }
    }
    let mut ctx = Ctx {
        repo,
        cfg: CfgEnv::default_env(),
        macros: HashMap::new(),
        path_rw: vec![],
        unwrap_types: vec![],
        type_rw: vec![],
        expr_rw: vec![],
        method_rw: vec![],
        files: HashMap::new(),
        file_text: HashMap::new(),
    };
    let text = std::fs::read_to_string(&bundle_path).unwrap_or_else(|e| die(&format!("cannot read bundle {bundle_path}: {e}")));
    let mut out = String::new();
    let mut report: Vec<serde_json::Value> = vec![];
    let mut includes: Vec<String> = vec![];

    // splice //@include files (recursively) so that they may contain directives themselves
    fn splice(text: &str, verif_dir: &str, includes: &mut Vec<String>, depth: usize) -> Vec<String> {
        if depth > 8 {
            die("include depth");
        }
        let mut out = vec![];
        for l in text.lines() {
            if let Some(rest) = l.trim_start().strip_prefix("//@include") {
                let rest = rest.trim();
                let p = format!("{}/{}", verif_dir, rest);
                let inc = std::fs::read_to_string(&p).unwrap_or_else(|e| die(&format!("cannot include {p}: {e}")));
                includes.push(rest.to_string());
                out.push(format!("// ---- include {rest} ----"));
                out.extend(splice(&inc, verif_dir, includes, depth + 1));
                out.push(format!("// ---- end include {rest} ----"));
            } else {
                out.push(l.to_string());
            }
        }
        out
    }
    let spliced = splice(&text, &verif_dir, &mut includes, 0);
    // //@define <regex> => <replacement>  : textual abbreviations for contract text (never applied to extracted code)
    let mut defines: Vec<(Regex, String)> = vec![];
    let mut owned_lines: Vec<String> = vec![];
    for l in spliced {
        if let Some(rest) = l.trim_start().strip_prefix("//@define ") {
            let (a, b) = rest.split_once("=>").unwrap_or_else(|| die("define: need =>"));
            defines.push((Regex::new(a.trim()).unwrap_or_else(|e| die(&format!("define regex: {e}"))), b.trim().to_string()));
            continue;
        }
        if l.trim_start().starts_with("//@") {
            owned_lines.push(l);
            continue;
        }
        let mut cur = l;
        for (re, rep) in &defines {
            cur = re.replace_all(&cur, rep.as_str()).to_string();
        }
        owned_lines.push(cur);
    }
    let lines: Vec<&str> = owned_lines.iter().map(|s| s.as_str()).collect();
    let mut li = 0;
    let mut cur: Option<UnitSpec> = None;
    let mut cur_anchor: Option<String> = None; // "spec" or anchor key
    while li < lines.len() {
        let line = lines[li];
        li += 1;
        let t = line.trim_start();
        if let Some(d) = t.strip_prefix("//@") {
            let d = d.trim();
            let (cmd, rest) = match d.split_once(char::is_whitespace) {
                Some((a, b)) => (a, b.trim()),
                None => (d, ""),
            };
            match cmd {
                "include" => {
                    die("internal: include should have been spliced");
                },
                "macros" => {
                    let kv = parse_kv(rest);
                    let file = kv.get("file").unwrap_or_else(|| die("macros: file=")).clone();
                    let names: Vec<String> = kv.get("names").unwrap_or_else(|| die("macros: names=")).split(',').map(|s| s.to_string()).collect();
                    let f = ctx.load(&file).clone();
                    fn collect(items: &[Item], names: &[String], file: &str, out: &mut HashMap<String, mrules::MacroDef>) {
                        for it in items {
                            match it {
                                Item::Macro(m) => {
                                    if let Some(id) = &m.ident {
                                        if names.contains(&id.to_string()) {
                                            match mrules::parse_macro_rules(m, file) {
                                                Ok(d) => {
                                                    out.insert(d.name.clone(), d);
                                                },
                                                Err(e) => die(&format!("unsupported-construct: {e}")),
                                            }
                                        }
                                    }
                                },
                                Item::Mod(md) => {
                                    if let Some((_, its)) = &md.content {
                                        collect(its, names, file, out);
                                    }
                                },
                                _ => {},
                            }
                        }
                    }
                    collect(&f.items, &names, &file, &mut ctx.macros);
                    for n in &names {
                        if !ctx.macros.contains_key(n) {
                            die(&format!("anchor-lost: macro_rules! {n} not found in {file}"));
                        }
                    }
                },
                "path" => {
                    // //@path a::b => c::d     (empty rhs allowed)
                    let (l, r) = rest.split_once("=>").unwrap_or_else(|| die("path: need =>"));
                    let f: Vec<String> = l.trim().split("::").filter(|s| !s.is_empty()).map(|s| s.trim().to_string()).collect();
                    let t: Vec<String> = r.trim().split("::").filter(|s| !s.is_empty()).map(|s| s.trim().to_string()).collect();
                    // a later rule with the same left-hand side replaces the earlier one (otherwise the first match wins)
                    ctx.path_rw.retain(|(ff, _)| *ff != f);
                    ctx.path_rw.push((f, t));
                },
                "method" => {
                    let (l, r) = rest.split_once("=>").unwrap_or_else(|| die("method: need =>"));
                    ctx.method_rw.push((l.trim().to_string(), r.trim().to_string()));
                },
                "clearpaths" => {
                    ctx.path_rw.clear();
                    ctx.method_rw.clear();
                    ctx.type_rw.clear();
                    ctx.expr_rw.clear();
                },
                "expr" => {
                    let (l, r) = rest.split_once("=>").unwrap_or_else(|| die("expr: need =>"));
                    ctx.expr_rw.push((squash(l), r.trim().to_string()));
                },
                "unwrap_type" => {
                    ctx.unwrap_types.push(rest.trim().to_string());
                },
                "type" => {
                    let (l, r) = rest.split_once("=>").unwrap_or_else(|| die("type: need =>"));
                    ctx.type_rw.push((squash(l), r.trim().to_string()));
                },
                "cfg" => {
                    let kv = parse_kv(rest);
                    for (k, v) in kv {
                        if k == "feature" {
                            for f in v.split(',') {
                                ctx.cfg.kv.push(("feature".into(), f.to_string()));
                            }
                        } else {
                            ctx.cfg.kv.retain(|(a, _)| *a != k);
                            ctx.cfg.kv.push((k, v));
                        }
                    }
                },
                "item" => {
                    let kv = parse_kv(rest);
                    let file = kv.get("file").unwrap_or_else(|| die("item: file=")).clone();
                    let sel = kv.get("sel").unwrap_or_else(|| die("item: sel=")).clone();
                    if let Some(a) = kv.get("attrs") {
                        out.push_str(a);
                        out.push('\n');
                    }
                    let sg = kv.get("strip_generics").is_some();
                    out.push_str(&gen_item(&mut ctx, &file, &sel, sg, &mut report));
                },
                "unit" => {
                    let kv = parse_kv(rest);
                    let mut u = UnitSpec::default();
                    u.file = kv.get("file").unwrap_or_else(|| die("unit: file=")).clone();
                    u.sel = kv.get("sel").unwrap_or_else(|| die("unit: sel=")).clone();
                    u.name = kv.get("name").cloned().unwrap_or_else(|| u.sel.clone());
                    u.ret = kv.get("ret").cloned().unwrap_or_else(|| "r".into());
                    u.rename = kv.get("rename").cloned();
                    u.external_body = kv.get("mode").map(|m| m == "external_body").unwrap_or(false);
                    u.keep_pub = kv.get("vis").map(|m| m == "pub").unwrap_or(false);
                    u.no_ufcs = kv.get("ufcs").map(|m| m == "off").unwrap_or(false);
                    u.ufcs_calls = kv.get("ufcs").map(|m| m == "calls").unwrap_or(false);
                    u.index_ovl = kv.get("index_ovl").map(|m| m.split(',').map(|x| x.trim().to_string()).filter(|x| !x.is_empty()).collect()).unwrap_or_default();
                    u.open_attrs = kv.get("attrs").cloned().unwrap_or_default();
                    u.self_ty = kv.get("self_ty").cloned();
                    u.drop_const = kv.get("const").map(|m| m == "drop").unwrap_or(false);
                    u.generics = kv.get("generics").cloned();
                    u.drop_generics = kv.get("drop_generics").map(|m| m.split(',').map(|x| x.trim().to_string()).filter(|x| !x.is_empty()).collect()).unwrap_or_default();
                    cur = Some(u);
                    cur_anchor = None;
                },
                "subst" => {
                    let (l, r) = rest.split_once("=>").unwrap_or_else(|| die("subst: need =>"));
                    if let Some(u) = cur.as_mut() {
                        u.substs.push((squash(l), r.trim().to_string()));
                    } else {
                        die("//@subst outside //@unit");
                    }
                },
                "spec" => {
                    cur_anchor = Some("spec".into());
                },
                "at" => {
                    cur_anchor = Some(rest.to_string());
                },
                "end" => {
                    let u = cur.take().unwrap_or_else(|| die("//@end without //@unit"));
                    out.push_str(&gen_unit(&mut ctx, &u, &mut report));
                    cur_anchor = None;
                },
                other => die(&format!("unknown directive //@{other}")),
            }
            continue;
        }
        if let Some(u) = cur.as_mut() {
            match cur_anchor.as_deref() {
                Some("spec") => {
                    u.spec.push_str(line);
                    u.spec.push('\n');
                },
                Some(a) => {
                    let e = u.anchors.entry(a.to_string()).or_default();
                    e.push_str(line);
                    e.push('\n');
                },
                None => {
                    if !line.trim().is_empty() {
                        die(&format!("text inside //@unit {} before //@spec or //@at: {}", u.name, line));
                    }
                },
            }
        } else {
            out.push_str(line);
            out.push('\n');
        }
    }
    if cur.is_some() {
        die("unterminated //@unit");
    }
    if probe {
        // vacuity probe: must be REJECTED by the verifier
        out.push_str("\nverus! { proof fn vx_probe_must_fail() ensures false {} }\n");
    }
    std::fs::write(&out_path, &out).unwrap_or_else(|e| die(&format!("cannot write {out_path}: {e}")));
    let rep = serde_json::json!({"bundle": bundle_path, "includes": includes, "units": report});
    if !report_path.is_empty() {
        std::fs::write(&report_path, serde_json::to_string_pretty(&rep).unwrap()).unwrap();
    }
}
