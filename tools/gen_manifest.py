#!/usr/bin/env python3
"""Regenerate MANIFEST.json from bundles.toml + manifest_meta.toml (keeps the manifest consistent with what ./check serves)."""
import json, tomllib, os
V = os.path.dirname(os.path.dirname(os.path.abspath(__file__)))
cfg = tomllib.load(open(os.path.join(V, "bundles.toml"), "rb"))
meta = tomllib.load(open(os.path.join(V, "manifest_meta.toml"), "rb"))
props = [json.loads(l)["id"] for l in open(os.path.join(V, "properties.jsonl"))]
checks, na = [], []
for pid in props:
    if pid in cfg["property"] and pid in meta["claim"]:
        m = meta["claim"][pid]
        checks.append({
            "property_id": pid,
            "quick_cmd": "./check %s quick" % pid,
            "thorough_cmd": "./check %s thorough" % pid,
            "evidence_file": "/verif/evidence/%s.json" % pid,
            "replay_cmd_template": "./check --replay {path}",
            "engine": "verus+kani",
            "level_claimed": {"category": cfg["property"][pid].get("level", "proof"), "text": m["text"], "design_ref": m.get("design_ref", "DESIGN.md section 5")},
            "level_note": m["note"],
            "technique": m["technique"],
        })
    else:
        na.append({"property_id": pid, "reason": meta["na"].get(pid, "not built in this round (see DESIGN.md section 5)")})
man = {
    "version": 1,
    "setup_cmd": "cd /verif/tools/vx && CARGO_NET_OFFLINE=true cargo build --release --offline",
    "hooks": {"guard": "arkworks_rs_algebra_verif", "enable": "RUSTFLAGS='--cfg arkworks_rs_algebra_verif' (no hook commit is currently needed: Verus reads private functions from source)",
              "baseline_off_cmd": "cd /repo && cargo test --workspace --no-fail-fast --offline", "source_commits": [], "add_only": True},
    "engines": [
        {"name": "vx", "path": "/verif/tools/vx", "serves_properties": [c["property_id"] for c in checks], "kind_free_text": "syn-based extractor/weaver: real functions of /repo -> Verus bundles with contracts from /verif/contracts"},
        {"name": "verus", "path": "/usr/local/bin/verus", "serves_properties": [c["property_id"] for c in checks], "kind_free_text": "deductive verifier (SMT/Z3), unbounded"},
        {"name": "kani", "path": "/verif/kani", "serves_properties": meta.get("kani_serves", []), "kind_free_text": "CBMC: complete loop-free harnesses and labelled bounded stand-ins"},
        {"name": "replay", "path": "/verif/replay", "serves_properties": [c["property_id"] for c in checks], "kind_free_text": "witness search / replay of counterexamples against the real code (num-bigint oracle)"},
    ],
    "checks": checks,
    "notes": meta.get("notes", ""),
    "not_applicable": na,
}
json.dump(man, open(os.path.join(V, "MANIFEST.json"), "w"), indent=1)
print("MANIFEST.json: %d checks, %d not_applicable" % (len(checks), len(na)))
