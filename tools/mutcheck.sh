#!/bin/bash
# tools/mutcheck.sh <patch.diff> <property> [tier]   -- apply a seeded change to /repo, run the check (evidence redirected), undo
set -u
patch=$1; prop=$2; tier=${3:-quick}
git -C /repo apply "$patch" || { echo "patch does not apply"; exit 3; }
VERIF_EVIDENCE_DIR=/tmp/verif_mut_evidence VERIF_REPLAY_DIR=/tmp/verif_mut_replays /verif/check "$prop" "$tier"; rc=$?
git -C /repo checkout -- .
echo "mutcheck exit=$rc"
exit $rc
