#!/bin/bash
# tools/seeded_regress.sh [seed-name-prefix]  -- run every seeded change of /verif/seeded through its property's quick check
# (evidence and replays redirected); prints one line per seed: CAUGHT / MISSED / N-A (patch no longer applies) / UNDECIDED
cd /verif
for d in seeded/${1:-}*/; do
  n=$(basename $d)
  p=$(python3 -c "import json; print(json.load(open('$d/meta.json')).get('property','?'))" 2>/dev/null)
  [ -z "$p" ] && continue
  out=$(tools/mutcheck.sh /verif/$d/patch.diff $p 2>&1)
  rc=$(echo "$out" | grep -o "mutcheck exit=[0-9]*" | cut -d= -f2)
  case "$rc" in
    1) ob=$(echo "$out" | grep -m1 "obligation:" | cut -c1-140); echo "$n $p CAUGHT $ob";;
    0) echo "$n $p MISSED";;
    2) echo "$n $p UNDECIDED $(echo "$out" | grep -m1 UNDECIDED | cut -c1-160)";;
    *) echo "$n $p N-A $(echo "$out" | tail -2 | head -1 | cut -c1-100)";;
  esac
done
