#!/usr/bin/env python3
"""Derive-macro grid: for a modulus, run the REAL generator of /repo (tools/montgen), and render a Verus bundle in which
the generated `impl MontConfig<N> for Cfg` must satisfy the same trait contracts as the default arithmetic.
usage: derive_grid.py <key> <modulus> <generator> <out.vxb> <generated.rs>"""
import subprocess, sys, os, re

V = os.path.dirname(os.path.dirname(os.path.abspath(__file__)))

def limbs(x, n):
    return [(x >> (64 * i)) & (2**64 - 1) for i in range(n)]

def main():
    key, modulus, gen, out_vxb, gen_rs = sys.argv[1], int(sys.argv[2]), sys.argv[3], sys.argv[4], sys.argv[5]
    n = 1
    while (1 << (64 * n)) < modulus:   # same rule as mont_config_helper (checked below against the generated `type B`)
        n += 1
    r = subprocess.run([os.path.join(V, "tools/montgen/target/release/montgen"), str(modulus), gen], capture_output=True, text=True)
    if r.returncode != 0:
        print("montgen failed: " + r.stderr[-500:], file=sys.stderr); sys.exit(2)
    fmt = subprocess.run(["rustfmt", "--edition", "2021"], input=r.stdout, capture_output=True, text=True)
    src = fmt.stdout if fmt.returncode == 0 else r.stdout
    open(gen_rs, "w").write(src)
    m = re.search(r"type B = BigInt<\s*(\d+)usize\s*>", src)
    if not m or int(m.group(1)) != n:
        print("limb count mismatch between generator and grid script", file=sys.stderr); sys.exit(2)
    R = 1 << (64 * n)
    pl = limbs(modulus, n)
    inv = (-pow(pl[0], -1, 1 << 64)) % (1 << 64)
    r2 = limbs((R * R) % modulus, n)
    spare = (pl[-1] >> 63) == 0
    allones = pl[-1] == (2**63 - 1) and all(l == 2**64 - 1 for l in pl[:-1])
    nocarry = spare and not allones
    lit = lambda ls: "[" + ", ".join("%du64" % l for l in ls) + "]"
    uses_scratch = "let mut scratch" in src
    # N-specific hints -------------------------------------------------------------------------------
    # value of an N-limb array as an explicit literal-weighted sum (so that Z3 works in linear arithmetic)
    def unfold(seq_expr):
        return " + ".join("%s[%d] as nat * %dnat" % (seq_expr, i, 1 << (64 * i)) for i in range(n))
    unfold_lemma = "pub proof fn lemma_unfold(s: Seq<u64>)\n    requires s.len() == %d\n    ensures val(s, %d) == %s\n{\n    reveal_with_fuel(val, %d); reveal_with_fuel(bpow, %d);\n%s}\n" % (
        n, n, unfold("s"), n + 1, n + 1,
        "".join("    assert(bpow(%d) == %dnat) by(compute_only);\n" % (i, 1 << (64 * i)) for i in range(n + 1)))
    dist_terms = " + ".join("(a%d * b%d) * %dnat" % (i, j, 1 << (64 * (i + j))) for i in range(n) for j in range(n))
    sa_e = " + ".join("a%d * %dnat" % (i, 1 << (64 * i)) for i in range(n))
    sb_e = " + ".join("b%d * %dnat" % (i, 1 << (64 * i)) for i in range(n))
    dist_lemma = "pub proof fn lemma_dist(%s)\n    ensures (%s) * (%s) == %s\n{\n%s}\n" % (
        ", ".join("a%d: nat" % i for i in range(n)) + ", " + ", ".join("b%d: nat" % i for i in range(n)), sa_e, sb_e, dist_terms,
        "".join("    assert((a%d * %dnat) * (b%d * %dnat) == (a%d * b%d) * %dnat) by(nonlinear_arith);\n" % (i, 1 << (64 * i), j, 1 << (64 * j), i, j, 1 << (64 * (i + j))) for i in range(n) for j in range(n))
        + "    let sa = %s; let sb = %s;\n" % (sa_e, sb_e)
        + "    assert(sa * sb == %s) by(nonlinear_arith)\n        requires sa == %s, sb == %s;\n" % (
            " + ".join("(a%d * %dnat) * (b%d * %dnat)" % (i, 1 << (64 * i), j, 1 << (64 * j)) for i in range(n) for j in range(n)), sa_e, sb_e))
    # ---- mul_assign / square_in_place units (shape-specific hints, generated for this N)
    W = lambda k: str(1 << (64 * k))
    def mul_unit_scratch(fn, arr, tmpname, discard):
        sq = fn == "square_in_place"
        PN = "%dnat" % modulus; RN = "%dnat" % R; PM1 = "%dnat" % (modulus - 1)
        u = []
        u.append('//@unit name=derive::%s file=%s sel="impl MontConfig / %s" rename=derive_%s' % (fn, gen_rs, fn, fn))
        u.append('//@subst (a.0).0 = %s[%dusize..].try_into().unwrap(); => (a.0).0 = [%s];' % (arr, n, ", ".join("%s[%d]" % (arr, n + i) for i in range(n))))
        u.append('//@spec')
        u.append('    requires val(old(a).0.0@, %d) < %s%s,' % (n, PN, "" if sq else ", val(b.0.0@, %d) < %s" % (n, PN)))
        other = "val(old(a).0.0@, %d)" % n if sq else "val(b.0.0@, %d)" % n
        u.append('    ensures val(final(a).0.0@, %d) < %s, mont_rel(val(final(a).0.0@, %d), val(old(a).0.0@, %d) * %s, %s, %s),' % (n, PN, n, n, other, PN, RN))
        u.append('//@at fn.begin')
        u.append('    let ghost av = a.0.0@; let ghost bv = %s;' % ("a.0.0@" if sq else "b.0.0@"))
        u.append('    let ghost aa = val(av, %d); let ghost bb = val(bv, %d);' % (n, n))
        u.append('    proof { lemma_cfg_wf(); lemma_unfold(av); lemma_unfold(bv); lemma_dist(%s, %s);' % (
            ", ".join("av[%d] as nat" % i for i in range(n)), ", ".join("bv[%d] as nat" % i for i in range(n))))
        u.append('        assert(aa * bb <= %s * %s) by(nonlinear_arith) requires aa <= %s, bb <= %s;' % (PM1, PM1, PM1, PM1))
        u.append('    }')
        for i in range(n):
            stmt = "let %s = %s[%dusize].wrapping_mul(Self::INV);" % (tmpname, arr, i)
            u.append('//@at after["%s"]' % stmt)
            u.append('    let ghost k%d = %s as nat;' % (i, tmpname))
            u.append('    proof { lemma_k(%s[%d] as nat, Cfg::INV as nat, %dnat, k%d); }' % (arr, i, pl[0], i))
        u.append('//@at after["(a.0).0 = [%s];"]' % ", ".join("%s[%d]" % (arr, n + i) for i in range(n)))
        msum = " + ".join("k%d * %snat" % (i, W(i)) for i in range(n))
        u.append('    proof {')
        u.append('        lemma_unfold(a.0.0@);')
        u.append('        let m = %s;' % msum)
        u.append('        let t = val(a.0.0@, %d) + (carry2 as nat) * %s;' % (n, RN))
        u.append('        assert(t * %s == aa * bb + m * %s);' % (RN, PN))
        u.append('        assert(t < 2 * %s);' % PN)
        u.append('        lemma_rel_from_witness(t, %s, aa * bb, m, %s);' % (RN, PN))
        u.append('        if t >= %s { lemma_rel_shift(t, aa * bb, %s, %s); }' % (PN, PN, RN))
        u.append('        val_bound(a.0.0@, %d);' % n)
        u.append('    }')
        u.append('//@end')
        return "\n".join(u)
    mul_units = ""
    want_mul = os.environ.get("DERIVE_MUL_MAX_N", "2")
    if uses_scratch and n <= int(want_mul):
        mul_units = mul_unit_scratch("mul_assign", "scratch", "tmp", False)
    tpl = open(os.path.join(V, "contracts/c01_derive.vxt")).read()
    copy_hi = "(a.0).0 = [" + ", ".join("%s[%d]" % ("scratch" if uses_scratch else "r", n + i) for i in range(n)) + "];"
    rep = {
        "{KEY}": key, "{NP1}": str(n + 1), "{N}": str(n), "{GENFILE}": gen_rs, "{MODLIT}": lit(pl), "{INV}": "%du64" % inv, "{R2LIT}": lit(r2), "{P0}": "%d" % pl[0],
        "{SPARE}": "true" if spare else "false", "{NOCARRY}": "true" if nocarry else "false",
        "{UNFOLD_LEMMA}": unfold_lemma, "{DIST_LEMMA}": (dist_lemma if mul_units else "// (no multiplication unit at this grid point: lemma_dist omitted)"), "{MODPLAIN}": str(modulus), "{MODNAT}": "%dnat" % modulus, "{MODINT}": "%dint" % modulus, "{RNAT}": "%dnat" % R,
        "{UNFOLD_A}": "lemma_unfold(a.0.0@);", "{COPY_HI_SCRATCH}": copy_hi.replace("r[", "scratch[") if uses_scratch else copy_hi,
        "{COPY_HI_R}": "(a.0).0 = [" + ", ".join("r[%d]" % (n + i) for i in range(n)) + "];",
        "{AARGS}": ", ".join("a.0.0@[%d] as nat" % i for i in range(n)), "{BARGS}": ", ".join("b.0.0@[%d] as nat" % i for i in range(n)),
        "{MUL_SHAPE}": "scratch" if uses_scratch else "nocarry", "{MUL_UNITS}": mul_units,
    }
    for k, v in rep.items():
        tpl = tpl.replace(k, v)
    # conditional sections:  //?scratch ... //?end   kept only for the matching mul shape
    out, keep = [], True
    for line in tpl.split("\n"):
        m = re.match(r"\s*//\?(\w+)\s*$", line)
        if m:
            tag = m.group(1)
            keep = True if tag == "end" else (tag == rep["{MUL_SHAPE}"])
            continue
        if keep:
            out.append(line)
    open(out_vxb, "w").write("\n".join(out))

if __name__ == "__main__":
    main()
