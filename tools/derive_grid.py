#!/usr/bin/env python3
"""Derive-macro grid: for a modulus, run the REAL generator of /repo (tools/montgen), and render a Verus bundle in which
the generated `impl MontConfig<N> for Cfg` must satisfy the same trait contracts as the default arithmetic.
usage: derive_grid.py <key> <modulus> <generator> <out.vxb> <generated.rs>"""
import subprocess, sys, os, re

V = os.path.dirname(os.path.dirname(os.path.abspath(__file__)))

def limbs(x, n):
    return [(x >> (64 * i)) & (2**64 - 1) for i in range(n)]

def main():
    key, modulus, gen, out_vxb, gen_rs = sys.argv[1], int(sys.argv[2]), sys.argv[3], sys.argv[4], sys.argv[5]
    n = 1
    while (1 << (64 * n)) < modulus:   # same rule as mont_config_helper (checked below against the generated `type B`)
        n += 1
    r = subprocess.run([os.path.join(V, "tools/montgen/target/release/montgen"), str(modulus), gen], capture_output=True, text=True)
    if r.returncode != 0:
        print("montgen failed: " + r.stderr[-500:], file=sys.stderr); sys.exit(2)
    fmt = subprocess.run(["rustfmt", "--edition", "2021"], input=r.stdout, capture_output=True, text=True)
    src = fmt.stdout if fmt.returncode == 0 else r.stdout
    open(gen_rs, "w").write(src)
    m = re.search(r"type B = BigInt<\s*(\d+)usize\s*>", src)
    if not m or int(m.group(1)) != n:
        print("limb count mismatch between generator and grid script", file=sys.stderr); sys.exit(2)
    R = 1 << (64 * n)
    pl = limbs(modulus, n)
    inv = (-pow(pl[0], -1, 1 << 64)) % (1 << 64)
    r2 = limbs((R * R) % modulus, n)
    spare = (pl[-1] >> 63) == 0
    allones = pl[-1] == (2**63 - 1) and all(l == 2**64 - 1 for l in pl[:-1])
    nocarry = spare and not allones
    lit = lambda ls: "[" + ", ".join("%du64" % l for l in ls) + "]"
    uses_scratch = "let mut scratch" in src
    # N-specific hints -------------------------------------------------------------------------------
    # value of an N-limb array as an explicit literal-weighted sum (so that Z3 works in linear arithmetic)
    def unfold(seq_expr):
        return " + ".join("%s[%d] as nat * %dnat" % (seq_expr, i, 1 << (64 * i)) for i in range(n))
    unfold_lemma = "pub proof fn lemma_unfold(s: Seq<u64>)\n    requires s.len() == %d\n    ensures val(s, %d) == %s\n{\n    reveal_with_fuel(val, %d); reveal_with_fuel(bpow, %d);\n%s}\n" % (
        n, n, unfold("s"), n + 1, n + 1,
        "".join("    assert(bpow(%d) == %dnat) by(compute_only);\n" % (i, 1 << (64 * i)) for i in range(n + 1)))
    dist_terms = " + ".join("(a%d * b%d) * %dnat" % (i, j, 1 << (64 * (i + j))) for i in range(n) for j in range(n))
    sa_e = " + ".join("a%d * %dnat" % (i, 1 << (64 * i)) for i in range(n))
    sb_e = " + ".join("b%d * %dnat" % (i, 1 << (64 * i)) for i in range(n))
    dist_lemma = "pub proof fn lemma_dist(%s)\n    ensures (%s) * (%s) == %s\n{\n%s}\n" % (
        ", ".join("a%d: nat" % i for i in range(n)) + ", " + ", ".join("b%d: nat" % i for i in range(n)), sa_e, sb_e, dist_terms,
        "".join("    assert((a%d * %dnat) * (b%d * %dnat) == (a%d * b%d) * %dnat) by(nonlinear_arith);\n" % (i, 1 << (64 * i), j, 1 << (64 * j), i, j, 1 << (64 * (i + j))) for i in range(n) for j in range(n))
        + "    let sa = %s; let sb = %s;\n" % (sa_e, sb_e)
        + "    assert(sa * sb == %s) by(nonlinear_arith)\n        requires sa == %s, sb == %s;\n" % (
            " + ".join("(a%d * %dnat) * (b%d * %dnat)" % (i, 1 << (64 * i), j, 1 << (64 * j)) for i in range(n) for j in range(n)), sa_e, sb_e))
    # ---- mul_assign / square_in_place units (shape-specific hints, generated for this N)
    W = lambda k: str(1 << (64 * k))
    def mul_unit_scratch(fn, arr, tmpname, discard):
        sq = fn == "square_in_place"
        PN = "%dnat" % modulus; RN = "%dnat" % R; PM1 = "%dnat" % (modulus - 1)
        u = []
        u.append('//@unit name=derive::%s file=%s sel="impl MontConfig / %s" rename=derive_%s' % (fn, gen_rs, fn, fn))
        u.append('//@subst (a.0).0 = %s[%dusize..].try_into().unwrap(); => (a.0).0 = [%s];' % (arr, n, ", ".join("%s[%d]" % (arr, n + i) for i in range(n))))
        u.append('//@spec')
        u.append('    requires val(old(a).0.0@, %d) < %s%s,' % (n, PN, "" if sq else ", val(b.0.0@, %d) < %s" % (n, PN)))
        other = "val(old(a).0.0@, %d)" % n if sq else "val(b.0.0@, %d)" % n
        u.append('    ensures val(final(a).0.0@, %d) < %s, mont_rel(val(final(a).0.0@, %d), val(old(a).0.0@, %d) * %s, %s, %s),' % (n, PN, n, n, other, PN, RN))
        u.append('//@at fn.begin')
        u.append('    let ghost av = a.0.0@; let ghost bv = %s;' % ("a.0.0@" if sq else "b.0.0@"))
        u.append('    let ghost aa = val(av, %d); let ghost bb = val(bv, %d);' % (n, n))
        u.append('    proof { lemma_cfg_wf(); lemma_unfold(av); lemma_unfold(bv); lemma_dist(%s, %s);' % (
            ", ".join("av[%d] as nat" % i for i in range(n)), ", ".join("bv[%d] as nat" % i for i in range(n))))
        u.append('        assert(aa * bb <= %s * %s) by(nonlinear_arith) requires aa <= %s, bb <= %s;' % (PM1, PM1, PM1, PM1))
        u.append('    }')
        for i in range(n):
            stmt = "let %s = %s[%dusize].wrapping_mul(Self::INV);" % (tmpname, arr, i)
            u.append('//@at after["%s"]' % stmt)
            u.append('    let ghost k%d = %s as nat;' % (i, tmpname))
            u.append('    proof { lemma_k(%s[%d] as nat, Cfg::INV as nat, %dnat, k%d); }' % (arr, i, pl[0], i))
        u.append('//@at after["(a.0).0 = [%s];"]' % ", ".join("%s[%d]" % (arr, n + i) for i in range(n)))
        msum = " + ".join("k%d * %snat" % (i, W(i)) for i in range(n))
        u.append('    proof {')
        u.append('        lemma_unfold(a.0.0@);')
        u.append('        let m = %s;' % msum)
        u.append('        let t = val(a.0.0@, %d) + (carry2 as nat) * %s;' % (n, RN))
        u.append('        assert(t * %s == aa * bb + m * %s);' % (RN, PN))
        u.append('        assert(t < 2 * %s);' % PN)
        u.append('        lemma_rel_from_witness(t, %s, aa * bb, m, %s);' % (RN, PN))
        u.append('        if t >= %s { lemma_rel_shift(t, aa * bb, %s, %s); }' % (PN, PN, RN))
        u.append('        val_bound(a.0.0@, %d);' % n)
        u.append('    }')
        u.append('//@end')
        return "\n".join(u)

    def mul_unit_nocarry(fn):
        """No-carry CIOS, fully unrolled by the generator: the proof is the loop proof of the trait default
        (contracts/c01_mont.vxb, MontConfig::mul_assign) replayed per unrolled row / column with literal indices;
        row and column counters live in ghost variables."""
        PN = "%dnat" % modulus; RN = "%dnat" % R
        u = []
        # products of limbs are kept as applications of an opaque function in the body query (Z3's nonlinear engine stays out of
        # the straight-line code); the wrappers are verified calls of the real leaf functions, nothing is assumed
        u.append("""#[verifier::opaque]
pub open spec fn prod(x: nat, y: nat) -> nat { x * y }
pub proof fn lemma_prod(x: nat, y: nat) ensures prod(x, y) == x * y { reveal(prod); }
fn mac_o(a: u64, b: u64, c: u64, carry: &mut u64) -> (r: u64)
    ensures r as nat + (*final(carry)) as nat * B() == a as nat + prod(b as nat, c as nat)
{ proof { lemma_prod(b as nat, c as nat); } mac(a, b, c, carry) }
fn mac_discard_o(a: u64, b: u64, c: u64, carry: &mut u64)
    ensures (*final(carry)) as nat == (a as nat + prod(b as nat, c as nat)) / B()
{ proof { lemma_prod(b as nat, c as nat); } mac_discard(a, b, c, carry) }
fn mac_with_carry_o(a: u64, b: u64, c: u64, carry: &mut u64) -> (r: u64)
    ensures r as nat + (*final(carry)) as nat * B() == a as nat + prod(b as nat, c as nat) + (*old(carry)) as nat
{ proof { lemma_prod(b as nat, c as nat); } mac_with_carry(a, b, c, carry) }
//@clearpaths
//@path fa::mac_with_carry => mac_with_carry_o
//@path fa::mac_discard => mac_discard_o
//@path fa::mac => mac_o
//@path fa => 
//@path Self::INV => Cfg::INV
//@path ark_ff::biginteger::arithmetic => crate""")
        u.append('//@unit name=derive::%s file=%s sel="impl MontConfig / %s" rename=derive_%s' % (fn, gen_rs, fn, fn))
        u.append('//@spec')
        u.append('    requires val(old(a).0.0@, %d) < %s, val(b.0.0@, %d) < %s,' % (n, PN, n, PN))
        u.append('    ensures val(final(a).0.0@, %d) < %s, mont_rel(val(final(a).0.0@, %d), val(old(a).0.0@, %d) * val(b.0.0@, %d), %s, %s),' % (n, PN, n, n, n, PN, RN))
        u.append('//@at fn.begin')
        u.append('    let ghost av = a.0.0@; let ghost bv = b.0.0@; let ghost pv = Cfg::MODULUS.0@;')
        u.append('    let ghost A = val(av, %d); let ghost P = val(pv, %d);' % (n, n))
        u.append('    let ghost mut m: nat = 0; let ghost mut gi: nat = 0; let ghost mut bi: nat = 0; let ghost mut tv: nat = 0;')
        u.append('    let ghost mut r0: Seq<u64> = Seq::empty(); let ghost mut rprev: Seq<u64> = Seq::empty(); let ghost mut rlast: Seq<u64> = Seq::empty();')
        u.append('    let ghost mut c1: nat = 0; let ghost mut c2: nat = 0; let ghost mut vnew_g: nat = 0;')
        u.append('    proof { lemma_cfg_wf(); val_bound(pv, %d); val_bound(bv, %d); val_bound(av, %d); bpow_pos(%d);' % (n, n, n, n))
        for j in range(n):
            u.append('        assert(pv[%d] == %du64);' % (j, pl[j]))
        u.append('    }')
        u.append('//@at after["let mut r = [0u64; %dusize];"]' % n)
        u.append('    proof { val_zero(r@, %d); assert(A * val(bv, 0) == 0) by(nonlinear_arith) requires val(bv, 0) == 0; assert(0 * P == 0) by(nonlinear_arith);' % n)
        u.append('        assert(bpow(0) == 1); assert(val(r@, %d) * bpow(0) == A * val(bv, 0) + m * P); }' % n)
        u.append('//@at after*["let mut carry1 = 0u64;"]')
        u.append('    proof { r0 = r@; }')
        row_end = []
        def row_end_text():
            t = []
            t.append('        let bn = bpow(%d); let bn1 = bpow(%d);' % (n, n - 1))
            t.append('        let vlow = val(r@, %d);' % (n - 1))
            t.append('        let cs = carry1 as nat + carry2 as nat;')
            t.append('        let vnew = vlow + cs * bn1;')
            t.append('        let bi_pow = bpow(gi);')
            t.append('        let m2 = m + k as nat * bi_pow;')
            t.append('        assert(cs < B() && vnew * bpow(gi + 1) == A * val(bv, gi + 1) + m2 * P && m2 < bpow(gi + 1)) by {')
            t.append('            assert(bn == B() * bn1);')
            t.append('            assert(tv + carry1 as nat * bn == val(r0, %d) + A * bi);' % n)
            t.append('            assert(tv + k as nat * P == B() * vlow + carry2 as nat * bn);')
            t.append('            assert(B() * vnew == val(r0, %d) + A * bi + k as nat * P) by(nonlinear_arith)' % n)
            t.append('                requires tv + carry1 as nat * bn == val(r0, %d) + A * bi, tv + k as nat * P == B() * vlow + carry2 as nat * bn, bn == B() * bn1, vnew == vlow + cs * bn1, cs == carry1 as nat + carry2 as nat;' % n)
            t.append('            assert(bpow(gi + 1) == B() * bi_pow);')
            t.append('            assert(vnew * (B() * bi_pow) == A * (val(bv, gi) + bi * bi_pow) + m2 * P) by(nonlinear_arith)')
            t.append('                requires B() * vnew == val(r0, %d) + A * bi + k as nat * P, val(r0, %d) * bi_pow == A * val(bv, gi) + m * P, m2 == m + k as nat * bi_pow;' % (n, n))
            t.append('            assert(m2 < B() * bi_pow) by(nonlinear_arith) requires m < bi_pow, (k as nat) < B(), m2 == m + k as nat * bi_pow;')
            t.append('            val_bound(bv, gi + 1); bpow_pos(gi + 1);')
            t.append('            assert(val(bv, gi + 1) == val(bv, gi) + bi * bi_pow);')
            t.append('            lemma_lt(vnew, A, P, val(bv, gi + 1), m2, bpow(gi + 1));')
            t.append('            assert(cs < B()) by(nonlinear_arith) requires vnew == vlow + cs * bn1, vnew < A + P, A < P, 2 * P <= bn, bn == B() * bn1;')
            t.append('        }')
            t.append('        m = m2; rlast = r@; vnew_g = vnew;')
            return t
        for i in range(n):
            u.append('//@at after["r[0] = fa::mac(r[0], (a.0).0[0], (b.0).0[%dusize], &mut carry1);"]' % i)
            u.append('    proof { gi = %d; bi = bv[%d] as nat; assert(val(r0, %d) * bpow(gi) == A * val(bv, gi) + m * P); assert(m < bpow(gi)); }' % (i, i, n))
        u.append('//@at after*["fa::mac_discard(r[0], k, %du64, &mut carry2);"]' % pl[0])
        u.append('    proof {')
        u.append('        tv = r[0] as nat;')
        u.append('        assert(tv + carry1 as nat * bpow(1) == val(r0, 1) + val(av, 1) * bi && tv + k as nat * val(pv, 1) == B() * val(r@, 0) + carry2 as nat * bpow(1)) by {')
        u.append('        lemma_prod(av[0] as nat, bi); lemma_prod(k as nat, pv[0] as nat);')
        u.append('        lemma_wrapping_mul(r[0], Cfg::INV);')
        u.append('        lemma_k(r[0] as nat, Cfg::INV as nat, pv[0] as nat, k as nat);')
        u.append('        lemma_div_exact(r[0] as nat + k as nat * pv[0] as nat, carry2 as nat);')
        u.append('        reveal_with_fuel(val, 2); reveal_with_fuel(bpow, 2);')
        u.append('        assert(bpow(1) == B() * bpow(0));')
        u.append('        assert(val(r0, 1) == r0[0] as nat * bpow(0));')
        u.append('        assert(val(av, 1) == av[0] as nat * bpow(0));')
        u.append('        assert(val(pv, 1) == pv[0] as nat * bpow(0));')
        u.append('        assert(tv + carry1 as nat * bpow(1) == val(r0, 1) + val(av, 1) * bi) by(nonlinear_arith)')
        u.append('            requires tv + carry1 as nat * B() == r0[0] as nat + av[0] as nat * bi, bpow(1) == B(), val(r0, 1) == r0[0] as nat * 1, val(av, 1) == av[0] as nat * 1;')
        u.append('        assert(tv + k as nat * val(pv, 1) == B() * val(r@, 0) + carry2 as nat * bpow(1)) by(nonlinear_arith)')
        u.append('            requires tv + k as nat * pv[0] as nat == carry2 as nat * B(), bpow(1) == B(), val(pv, 1) == pv[0] as nat * 1, val(r@, 0) == 0;')
        u.append('        }')
        if n == 1:
            u.extend(row_end_text())
        u.append('        rprev = r@; c1 = carry1 as nat; c2 = carry2 as nat;')
        u.append('    }')
        for j in range(1, n):
            u.append('//@at after*["r[%dusize] = fa::mac_with_carry(r[%dusize], k, %du64, &mut carry2);"]' % (j - 1, j, pl[j]))
            u.append('    proof {')
            u.append('        let tv_old = tv;')
            u.append('        tv = tv_old + (r@[%d] as nat) * bpow(%d);' % (j, j))
            u.append('        // only the two column invariants leave this block (keeps the body query small)')
            u.append('        assert(tv + carry1 as nat * bpow(%d) == val(r0, %d) + val(av, %d) * bi' % (j + 1, j + 1, j + 1))
            u.append('            && tv + k as nat * val(pv, %d) == B() * val(r@, %d) + carry2 as nat * bpow(%d)) by {' % (j + 1, j, j + 1))
            u.append('            let tj = r@[%d] as nat; let bj = bpow(%d);' % (j, j))
            u.append('            lemma_prod(av[%d] as nat, bi); lemma_prod(k as nat, pv[%d] as nat);' % (j, j))
            u.append('            assert(bpow(%d) == B() * bj);' % (j + 1))
            u.append('            assert(bj == B() * bpow(%d));' % (j - 1))
            u.append('            assert(forall|l: int| 0 <= l < %d ==> rprev[l] == r@[l]);' % (j - 1))
            u.append('            val_frame(rprev, r@, %d);' % (j - 1))
            u.append('            let nw = r@[%d] as nat;' % (j - 1))
            u.append('            assert(rprev[%d] == r0[%d]);' % (j, j))
            u.append('            assert(tv_old + tj * bj + carry1 as nat * (B() * bj) == val(r0, %d) + r0[%d] as nat * bj + (val(av, %d) + av[%d] as nat * bj) * bi) by(nonlinear_arith)' % (j, j, j, j))
            u.append('                requires tv_old + c1 * bj == val(r0, %d) + val(av, %d) * bi, tj + carry1 as nat * B() == r0[%d] as nat + av[%d] as nat * bi + c1;' % (j, j, j, j))
            u.append('            lemma_i2(tv_old, tj, bj, k as nat, val(pv, %d), pv[%d] as nat, val(rprev, %d), nw, bpow(%d), c2, carry2 as nat);' % (j, j, j - 1, j - 1))
            u.append('        }')
            if j == n - 1:
                u.extend(row_end_text())
            u.append('        rprev = r@; c1 = carry1 as nat; c2 = carry2 as nat;')
            u.append('    }')
        u.append('//@at after*["r[%dusize - 1] = carry1 + carry2;"]' % n)
        u.append('    proof {')
        u.append('        assert(forall|l: int| 0 <= l < %d ==> rlast[l] == r@[l]);' % (n - 1))
        u.append('        val_frame(rlast, r@, %d);' % (n - 1))
        u.append('        assert(val(r@, %d) == vnew_g);' % n)
        u.append('        assert(val(r@, %d) * bpow(gi + 1) == A * val(bv, gi + 1) + m * P);' % n)
        u.append('        assert(m < bpow(gi + 1));')
        u.append('    }')
        u.append('//@at after["(a.0).0 = r;"]')
        u.append('    proof {')
        u.append('        let bb = bpow(%d); let vb = val(bv, %d); let vr = val(r@, %d);' % (n, n, n))
        u.append('        assert(gi + 1 == %d);' % n)
        u.append('        lemma_lt(vr, A, P, vb, m, bb);')
        u.append('        lemma_rel_from_witness(vr, bb, A * vb, m, P);')
        u.append('        if vr >= P { lemma_rel_shift(vr, A * vb, P, bb); }')
        u.append('    }')
        u.append('//@at fn.end')
        u.append('    proof { val_bound(a.0.0@, %d); }' % n)
        u.append('//@end')
        return "\n".join(u)
    mul_units = ""
    want_mul = os.environ.get("DERIVE_MUL_MAX_N", "2")
    if uses_scratch and n <= int(want_mul):
        mul_units = mul_unit_scratch("mul_assign", "scratch", "tmp", False)
    if not uses_scratch and n <= int(os.environ.get("DERIVE_NOCARRY_MAX_N", "12")):
        mul_units = mul_unit_nocarry("mul_assign")
    tpl = open(os.path.join(V, "contracts/c01_derive.vxt")).read()
    copy_hi = "(a.0).0 = [" + ", ".join("%s[%d]" % ("scratch" if uses_scratch else "r", n + i) for i in range(n)) + "];"
    rep = {
        "{KEY}": key, "{NP1}": str(n + 1), "{N}": str(n), "{GENFILE}": gen_rs, "{MODLIT}": lit(pl), "{INV}": "%du64" % inv, "{R2LIT}": lit(r2), "{P0}": "%d" % pl[0],
        "{SPARE}": "true" if spare else "false", "{NOCARRY}": "true" if nocarry else "false",
        "{UNFOLD_LEMMA}": unfold_lemma, "{DIST_LEMMA}": (dist_lemma if (mul_units and uses_scratch) else "// (no multiplication unit at this grid point: lemma_dist omitted)"), "{MODPLAIN}": str(modulus), "{MODNAT}": "%dnat" % modulus, "{MODINT}": "%dint" % modulus, "{RNAT}": "%dnat" % R,
        "{UNFOLD_A}": "lemma_unfold(a.0.0@);", "{COPY_HI_SCRATCH}": copy_hi.replace("r[", "scratch[") if uses_scratch else copy_hi,
        "{COPY_HI_R}": "(a.0).0 = [" + ", ".join("r[%d]" % (n + i) for i in range(n)) + "];",
        "{AARGS}": ", ".join("a.0.0@[%d] as nat" % i for i in range(n)), "{BARGS}": ", ".join("b.0.0@[%d] as nat" % i for i in range(n)),
        "{MUL_SHAPE}": "scratch" if uses_scratch else "nocarry", "{MUL_UNITS}": mul_units,
    }
    for k, v in rep.items():
        tpl = tpl.replace(k, v)
    # conditional sections:  //?scratch ... //?end   kept only for the matching mul shape
    out, keep = [], True
    for line in tpl.split("\n"):
        m = re.match(r"\s*//\?(\w+)\s*$", line)
        if m:
            tag = m.group(1)
            keep = True if tag == "end" else (tag == rep["{MUL_SHAPE}"])
            continue
        if keep:
            out.append(line)
    open(out_vxb, "w").write("\n".join(out))

if __name__ == "__main__":
    main()
