#!/usr/bin/env python3
"""Derive-macro grid: for a modulus, run the REAL generator of /repo (tools/montgen), and render a Verus bundle in which
the generated `impl MontConfig<N> for Cfg` must satisfy the same trait contracts as the default arithmetic.
usage: derive_grid.py <key> <modulus> <generator> <out.vxb> <generated.rs>"""
import subprocess, sys, os, re

V = os.path.dirname(os.path.dirname(os.path.abspath(__file__)))

def limbs(x, n):
    return [(x >> (64 * i)) & (2**64 - 1) for i in range(n)]

def main():
    key, modulus, gen, out_vxb, gen_rs = sys.argv[1], int(sys.argv[2]), sys.argv[3], sys.argv[4], sys.argv[5]
    n = 1
    while (1 << (64 * n)) < modulus:   # same rule as mont_config_helper (checked below against the generated `type B`)
        n += 1
    r = subprocess.run([os.path.join(V, "tools/montgen/target/release/montgen"), str(modulus), gen], capture_output=True, text=True)
    if r.returncode != 0:
        print("montgen failed: " + r.stderr[-500:], file=sys.stderr); sys.exit(2)
    fmt = subprocess.run(["rustfmt", "--edition", "2021"], input=r.stdout, capture_output=True, text=True)
    src = fmt.stdout if fmt.returncode == 0 else r.stdout
    open(gen_rs, "w").write(src)
    m = re.search(r"type B = BigInt<\s*(\d+)usize\s*>", src)
    if not m or int(m.group(1)) != n:
        print("limb count mismatch between generator and grid script", file=sys.stderr); sys.exit(2)
    R = 1 << (64 * n)
    pl = limbs(modulus, n)
    inv = (-pow(pl[0], -1, 1 << 64)) % (1 << 64)
    r2 = limbs((R * R) % modulus, n)
    spare = (pl[-1] >> 63) == 0
    allones = pl[-1] == (2**63 - 1) and all(l == 2**64 - 1 for l in pl[:-1])
    nocarry = spare and not allones
    lit = lambda ls: "[" + ", ".join("%du64" % l for l in ls) + "]"
    uses_scratch = "let mut scratch" in src
    # N-specific hints -------------------------------------------------------------------------------
    # value of an N-limb array as an explicit literal-weighted sum (so that Z3 works in linear arithmetic)
    def unfold(seq_expr):
        return " + ".join("%s[%d] as nat * %dnat" % (seq_expr, i, 1 << (64 * i)) for i in range(n))
    unfold_lemma = "pub proof fn lemma_unfold(s: Seq<u64>)\n    requires s.len() == %d\n    ensures val(s, %d) == %s\n{\n    reveal_with_fuel(val, %d); reveal_with_fuel(bpow, %d);\n%s}\n" % (
        n, n, unfold("s"), n + 1, n + 1,
        "".join("    assert(bpow(%d) == %dnat) by(compute_only);\n" % (i, 1 << (64 * i)) for i in range(n + 1)))
    dist_terms = " + ".join("(a%d * b%d) * %dnat" % (i, j, 1 << (64 * (i + j))) for i in range(n) for j in range(n))
    sa_e = " + ".join("a%d * %dnat" % (i, 1 << (64 * i)) for i in range(n))
    sb_e = " + ".join("b%d * %dnat" % (i, 1 << (64 * i)) for i in range(n))
    dist_lemma = "pub proof fn lemma_dist(%s)\n    ensures (%s) * (%s) == %s\n{\n%s}\n" % (
        ", ".join("a%d: nat" % i for i in range(n)) + ", " + ", ".join("b%d: nat" % i for i in range(n)), sa_e, sb_e, dist_terms,
        "".join("    assert((a%d * %dnat) * (b%d * %dnat) == (a%d * b%d) * %dnat) by(nonlinear_arith);\n" % (i, 1 << (64 * i), j, 1 << (64 * j), i, j, 1 << (64 * (i + j))) for i in range(n) for j in range(n))
        + "    let sa = %s; let sb = %s;\n" % (sa_e, sb_e)
        + "    assert(sa * sb == %s) by(nonlinear_arith)\n        requires sa == %s, sb == %s;\n" % (
            " + ".join("(a%d * %dnat) * (b%d * %dnat)" % (i, 1 << (64 * i), j, 1 << (64 * j)) for i in range(n) for j in range(n)), sa_e, sb_e))
    # ---- mul_assign / square_in_place units (shape-specific hints, generated for this N)
    W = lambda k: str(1 << (64 * k))
    def mul_unit_scratch(fn, arr, tmpname, discard):
        sq = fn == "square_in_place"
        PN = "%dnat" % modulus; RN = "%dnat" % R; PM1 = "%dnat" % (modulus - 1)
        u = []
        u.append('//@unit name=derive::%s file=%s sel="impl MontConfig / %s" rename=derive_%s' % (fn, gen_rs, fn, fn))
        u.append('//@subst (a.0).0 = %s[%dusize..].try_into().unwrap(); => (a.0).0 = [%s];' % (arr, n, ", ".join("%s[%d]" % (arr, n + i) for i in range(n))))
        u.append('//@spec')
        u.append('    requires val(old(a).0.0@, %d) < %s%s,' % (n, PN, "" if sq else ", val(b.0.0@, %d) < %s" % (n, PN)))
        other = "val(old(a).0.0@, %d)" % n if sq else "val(b.0.0@, %d)" % n
        u.append('    ensures val(final(a).0.0@, %d) < %s, mont_rel(val(final(a).0.0@, %d), val(old(a).0.0@, %d) * %s, %s, %s),' % (n, PN, n, n, other, PN, RN))
        u.append('//@at fn.begin')
        u.append('    let ghost av = a.0.0@; let ghost bv = %s;' % ("a.0.0@" if sq else "b.0.0@"))
        u.append('    let ghost aa = val(av, %d); let ghost bb = val(bv, %d);' % (n, n))
        u.append('    proof { lemma_cfg_wf(); lemma_unfold(av); lemma_unfold(bv); lemma_dist(%s, %s);' % (
            ", ".join("av[%d] as nat" % i for i in range(n)), ", ".join("bv[%d] as nat" % i for i in range(n))))
        u.append('        assert(aa * bb <= %s * %s) by(nonlinear_arith) requires aa <= %s, bb <= %s;' % (PM1, PM1, PM1, PM1))
        u.append('    }')
        for i in range(n):
            stmt = "let %s = %s[%dusize].wrapping_mul(Self::INV);" % (tmpname, arr, i)
            u.append('//@at after["%s"]' % stmt)
            u.append('    let ghost k%d = %s as nat;' % (i, tmpname))
            u.append('    proof { lemma_k(%s[%d] as nat, Cfg::INV as nat, %dnat, k%d); }' % (arr, i, pl[0], i))
        u.append('//@at after["(a.0).0 = [%s];"]' % ", ".join("%s[%d]" % (arr, n + i) for i in range(n)))
        msum = " + ".join("k%d * %snat" % (i, W(i)) for i in range(n))
        u.append('    proof {')
        u.append('        lemma_unfold(a.0.0@);')
        u.append('        let m = %s;' % msum)
        u.append('        let t = val(a.0.0@, %d) + (carry2 as nat) * %s;' % (n, RN))
        u.append('        assert(t * %s == aa * bb + m * %s);' % (RN, PN))
        u.append('        assert(t < 2 * %s);' % PN)
        u.append('        lemma_rel_from_witness(t, %s, aa * bb, m, %s);' % (RN, PN))
        u.append('        if t >= %s { lemma_rel_shift(t, aa * bb, %s, %s); }' % (PN, PN, RN))
        u.append('        val_bound(a.0.0@, %d);' % n)
        u.append('    }')
        u.append('//@end')
        return "\n".join(u)

    def mul_unit_nocarry(fn):
        """No-carry CIOS, fully unrolled by the generator: the proof is the loop proof of the trait default
        (contracts/c01_mont.vxb, MontConfig::mul_assign) replayed per unrolled row / column with literal indices;
        row and column counters live in ghost variables."""
        PN = "%dnat" % modulus; RN = "%dnat" % R
        u = []
        # products of limbs are kept as applications of an opaque function in the body query (Z3's nonlinear engine stays out of
        # the straight-line code); the wrappers are verified calls of the real leaf functions, nothing is assumed
        u.append("""fn mac_o(a: u64, b: u64, c: u64, carry: &mut u64) -> (r: u64)
    ensures r as nat + (*final(carry)) as nat * B() == a as nat + prod(b as nat, c as nat)
{ proof { lemma_prod(b as nat, c as nat); } mac(a, b, c, carry) }
fn mac_discard_o(a: u64, b: u64, c: u64, carry: &mut u64)
    ensures (*final(carry)) as nat == (a as nat + prod(b as nat, c as nat)) / B()
{ proof { lemma_prod(b as nat, c as nat); } mac_discard(a, b, c, carry) }
fn mac_with_carry_o(a: u64, b: u64, c: u64, carry: &mut u64) -> (r: u64)
    ensures r as nat + (*final(carry)) as nat * B() == a as nat + prod(b as nat, c as nat) + (*old(carry)) as nat
{ proof { lemma_prod(b as nat, c as nat); } mac_with_carry(a, b, c, carry) }
//@clearpaths
//@path fa::mac_with_carry => mac_with_carry_o
//@path fa::mac_discard => mac_discard_o
//@path fa::mac => mac_o
//@path fa => 
//@path Self::INV => Cfg::INV
//@path ark_ff::biginteger::arithmetic => crate""")
        u.append('//@unit name=derive::%s file=%s sel="impl MontConfig / %s" rename=derive_%s' % (fn, gen_rs, fn, fn))
        u.append('//@spec')
        u.append('    requires val(old(a).0.0@, %d) < %s, val(b.0.0@, %d) < %s,' % (n, PN, n, PN))
        u.append('    ensures val(final(a).0.0@, %d) < %s, mont_rel(val(final(a).0.0@, %d), val(old(a).0.0@, %d) * val(b.0.0@, %d), %s, %s),' % (n, PN, n, n, n, PN, RN))
        u.append('//@at fn.begin')
        u.append('    let ghost av = a.0.0@; let ghost bv = b.0.0@; let ghost pv = Cfg::MODULUS.0@;')
        u.append('    let ghost A = val(av, %d); let ghost P = val(pv, %d);' % (n, n))
        u.append('    let ghost mut m: nat = 0; let ghost mut gi: nat = 0; let ghost mut bi: nat = 0; let ghost mut tv: nat = 0;')
        u.append('    let ghost mut r0: Seq<u64> = Seq::empty(); let ghost mut rprev: Seq<u64> = Seq::empty(); let ghost mut rlast: Seq<u64> = Seq::empty();')
        u.append('    let ghost mut c1: nat = 0; let ghost mut c2: nat = 0; let ghost mut vnew_g: nat = 0;')
        u.append('    proof { lemma_cfg_wf(); val_bound(pv, %d); val_bound(bv, %d); val_bound(av, %d); bpow_pos(%d);' % (n, n, n, n))
        for j in range(n):
            u.append('        assert(pv[%d] == %du64);' % (j, pl[j]))
        u.append('    }')
        u.append('//@at after["let mut r = [0u64; %dusize];"]' % n)
        u.append('    proof { val_zero(r@, %d); assert(A * val(bv, 0) == 0) by(nonlinear_arith) requires val(bv, 0) == 0; assert(0 * P == 0) by(nonlinear_arith);' % n)
        u.append('        assert(bpow(0) == 1); assert(val(r@, %d) * bpow(0) == A * val(bv, 0) + m * P); }' % n)
        u.append('//@at after*["let mut carry1 = 0u64;"]')
        u.append('    proof { r0 = r@; }')
        row_end = []
        def row_end_text():
            t = []
            t.append('        let bn = bpow(%d); let bn1 = bpow(%d);' % (n, n - 1))
            t.append('        let vlow = val(r@, %d);' % (n - 1))
            t.append('        let cs = carry1 as nat + carry2 as nat;')
            t.append('        let vnew = vlow + cs * bn1;')
            t.append('        let bi_pow = bpow(gi);')
            t.append('        let m2 = m + k as nat * bi_pow;')
            t.append('        assert(cs < B() && vnew * bpow(gi + 1) == A * val(bv, gi + 1) + m2 * P && m2 < bpow(gi + 1)) by {')
            t.append('            assert(bn == B() * bn1);')
            t.append('            assert(tv + carry1 as nat * bn == val(r0, %d) + A * bi);' % n)
            t.append('            assert(tv + k as nat * P == B() * vlow + carry2 as nat * bn);')
            t.append('            assert(B() * vnew == val(r0, %d) + A * bi + k as nat * P) by(nonlinear_arith)' % n)
            t.append('                requires tv + carry1 as nat * bn == val(r0, %d) + A * bi, tv + k as nat * P == B() * vlow + carry2 as nat * bn, bn == B() * bn1, vnew == vlow + cs * bn1, cs == carry1 as nat + carry2 as nat;' % n)
            t.append('            assert(bpow(gi + 1) == B() * bi_pow);')
            t.append('            assert(vnew * (B() * bi_pow) == A * (val(bv, gi) + bi * bi_pow) + m2 * P) by(nonlinear_arith)')
            t.append('                requires B() * vnew == val(r0, %d) + A * bi + k as nat * P, val(r0, %d) * bi_pow == A * val(bv, gi) + m * P, m2 == m + k as nat * bi_pow;' % (n, n))
            t.append('            assert(m2 < B() * bi_pow) by(nonlinear_arith) requires m < bi_pow, (k as nat) < B(), m2 == m + k as nat * bi_pow;')
            t.append('            val_bound(bv, gi + 1); bpow_pos(gi + 1);')
            t.append('            assert(val(bv, gi + 1) == val(bv, gi) + bi * bi_pow);')
            t.append('            lemma_lt(vnew, A, P, val(bv, gi + 1), m2, bpow(gi + 1));')
            t.append('            assert(cs < B()) by(nonlinear_arith) requires vnew == vlow + cs * bn1, vnew < A + P, A < P, 2 * P <= bn, bn == B() * bn1;')
            t.append('        }')
            t.append('        m = m2; rlast = r@; vnew_g = vnew;')
            return t
        for i in range(n):
            u.append('//@at after["r[0] = fa::mac(r[0], (a.0).0[0], (b.0).0[%dusize], &mut carry1);"]' % i)
            u.append('    proof { gi = %d; bi = bv[%d] as nat; assert(val(r0, %d) * bpow(gi) == A * val(bv, gi) + m * P); assert(m < bpow(gi)); }' % (i, i, n))
        u.append('//@at after*["fa::mac_discard(r[0], k, %du64, &mut carry2);"]' % pl[0])
        u.append('    proof {')
        u.append('        tv = r[0] as nat;')
        u.append('        assert(tv + carry1 as nat * bpow(1) == val(r0, 1) + val(av, 1) * bi && tv + k as nat * val(pv, 1) == B() * val(r@, 0) + carry2 as nat * bpow(1)) by {')
        u.append('        lemma_prod(av[0] as nat, bi); lemma_prod(k as nat, pv[0] as nat);')
        u.append('        lemma_wrapping_mul(r[0], Cfg::INV);')
        u.append('        lemma_k(r[0] as nat, Cfg::INV as nat, pv[0] as nat, k as nat);')
        u.append('        lemma_div_exact(r[0] as nat + k as nat * pv[0] as nat, carry2 as nat);')
        u.append('        reveal_with_fuel(val, 2); reveal_with_fuel(bpow, 2);')
        u.append('        assert(bpow(1) == B() * bpow(0));')
        u.append('        assert(val(r0, 1) == r0[0] as nat * bpow(0));')
        u.append('        assert(val(av, 1) == av[0] as nat * bpow(0));')
        u.append('        assert(val(pv, 1) == pv[0] as nat * bpow(0));')
        u.append('        assert(tv + carry1 as nat * bpow(1) == val(r0, 1) + val(av, 1) * bi) by(nonlinear_arith)')
        u.append('            requires tv + carry1 as nat * B() == r0[0] as nat + av[0] as nat * bi, bpow(1) == B(), val(r0, 1) == r0[0] as nat * 1, val(av, 1) == av[0] as nat * 1;')
        u.append('        assert(tv + k as nat * val(pv, 1) == B() * val(r@, 0) + carry2 as nat * bpow(1)) by(nonlinear_arith)')
        u.append('            requires tv + k as nat * pv[0] as nat == carry2 as nat * B(), bpow(1) == B(), val(pv, 1) == pv[0] as nat * 1, val(r@, 0) == 0;')
        u.append('        }')
        if n == 1:
            u.extend(row_end_text())
        u.append('        rprev = r@; c1 = carry1 as nat; c2 = carry2 as nat;')
        u.append('    }')
        for j in range(1, n):
            u.append('//@at after*["r[%dusize] = fa::mac_with_carry(r[%dusize], k, %du64, &mut carry2);"]' % (j - 1, j, pl[j]))
            u.append('    proof {')
            u.append('        let tv_old = tv;')
            u.append('        tv = tv_old + (r@[%d] as nat) * bpow(%d);' % (j, j))
            u.append('        // only the two column invariants leave this block (keeps the body query small)')
            u.append('        assert(tv + carry1 as nat * bpow(%d) == val(r0, %d) + val(av, %d) * bi' % (j + 1, j + 1, j + 1))
            u.append('            && tv + k as nat * val(pv, %d) == B() * val(r@, %d) + carry2 as nat * bpow(%d)) by {' % (j + 1, j, j + 1))
            u.append('            let tj = r@[%d] as nat; let bj = bpow(%d);' % (j, j))
            u.append('            lemma_prod(av[%d] as nat, bi); lemma_prod(k as nat, pv[%d] as nat);' % (j, j))
            u.append('            assert(bpow(%d) == B() * bj);' % (j + 1))
            u.append('            assert(bj == B() * bpow(%d));' % (j - 1))
            u.append('            assert(forall|l: int| 0 <= l < %d ==> rprev[l] == r@[l]);' % (j - 1))
            u.append('            val_frame(rprev, r@, %d);' % (j - 1))
            u.append('            let nw = r@[%d] as nat;' % (j - 1))
            u.append('            assert(rprev[%d] == r0[%d]);' % (j, j))
            u.append('            assert(tv_old + tj * bj + carry1 as nat * (B() * bj) == val(r0, %d) + r0[%d] as nat * bj + (val(av, %d) + av[%d] as nat * bj) * bi) by(nonlinear_arith)' % (j, j, j, j))
            u.append('                requires tv_old + c1 * bj == val(r0, %d) + val(av, %d) * bi, tj + carry1 as nat * B() == r0[%d] as nat + av[%d] as nat * bi + c1;' % (j, j, j, j))
            u.append('            lemma_i2(tv_old, tj, bj, k as nat, val(pv, %d), pv[%d] as nat, val(rprev, %d), nw, bpow(%d), c2, carry2 as nat);' % (j, j, j - 1, j - 1))
            u.append('        }')
            if j == n - 1:
                u.extend(row_end_text())
            u.append('        rprev = r@; c1 = carry1 as nat; c2 = carry2 as nat;')
            u.append('    }')
        u.append('//@at after*["r[%dusize - 1] = carry1 + carry2;"]' % n)
        u.append('    proof {')
        u.append('        assert(forall|l: int| 0 <= l < %d ==> rlast[l] == r@[l]);' % (n - 1))
        u.append('        val_frame(rlast, r@, %d);' % (n - 1))
        u.append('        assert(val(r@, %d) == vnew_g);' % n)
        u.append('        assert(val(r@, %d) * bpow(gi + 1) == A * val(bv, gi + 1) + m * P);' % n)
        u.append('        assert(m < bpow(gi + 1));')
        u.append('    }')
        u.append('//@at after["(a.0).0 = r;"]')
        u.append('    proof {')
        u.append('        let bb = bpow(%d); let vb = val(bv, %d); let vr = val(r@, %d);' % (n, n, n))
        u.append('        assert(gi + 1 == %d);' % n)
        u.append('        lemma_lt(vr, A, P, vb, m, bb);')
        u.append('        lemma_rel_from_witness(vr, bb, A * vb, m, P);')
        u.append('        if vr >= P { lemma_rel_shift(vr, A * vb, P, bb); }')
        u.append('    }')
        u.append('//@at fn.end')
        u.append('    proof { val_bound(a.0.0@, %d); }' % n)
        u.append('//@end')
        return "\n".join(u)

    OPAQUE_PRELUDE = """fn mac_o(a: u64, b: u64, c: u64, carry: &mut u64) -> (r: u64)
    ensures r as nat + (*final(carry)) as nat * B() == a as nat + prod(b as nat, c as nat)
{ proof { lemma_prod(b as nat, c as nat); } mac(a, b, c, carry) }
fn mac_discard_o(a: u64, b: u64, c: u64, carry: &mut u64)
    ensures (*final(carry)) as nat == (a as nat + prod(b as nat, c as nat)) / B()
{ proof { lemma_prod(b as nat, c as nat); } mac_discard(a, b, c, carry) }
fn mac_with_carry_o(a: u64, b: u64, c: u64, carry: &mut u64) -> (r: u64)
    ensures r as nat + (*final(carry)) as nat * B() == a as nat + prod(b as nat, c as nat) + (*old(carry)) as nat
{ proof { lemma_prod(b as nat, c as nat); } mac_with_carry(a, b, c, carry) }
//@clearpaths
//@path fa::mac_with_carry => mac_with_carry_o
//@path fa::mac_discard => mac_discard_o
//@path fa::mac => mac_o
//@path fa => 
//@path Self::INV => Cfg::INV
//@path ark_ff::biginteger::arithmetic => crate"""

    def mul_unit_scratch_replay(fn):
        """2N-limb schoolbook product followed by Montgomery reduction, fully unrolled by the generator: the loop proof of
        Fp::mul_without_cond_subtract (contracts/c01_mont.vxb) replayed per unrolled step with literal indices."""
        PN = "%dnat" % modulus; RN = "%dnat" % R
        n2 = 2 * n
        u = [OPAQUE_PRELUDE]
        hi_list = ", ".join("scratch[%d]" % (n + i) for i in range(n))
        u.append('//@unit name=derive::%s file=%s sel="impl MontConfig / %s" rename=derive_%s' % (fn, gen_rs, fn, fn))
        u.append('//@subst (a.0).0 = scratch[%dusize..].try_into().unwrap(); => (a.0).0 = [%s];' % (n, hi_list))
        u.append('//@spec')
        u.append('    requires val(old(a).0.0@, %d) < %s, val(b.0.0@, %d) < %s,' % (n, PN, n, PN))
        u.append('    ensures val(final(a).0.0@, %d) < %s, mont_rel(val(final(a).0.0@, %d), val(old(a).0.0@, %d) * val(b.0.0@, %d), %s, %s),' % (n, PN, n, n, n, PN, RN))
        u.append('//@at fn.begin')
        u.append('    let ghost av = a.0.0@; let ghost bv = b.0.0@; let ghost pv = Cfg::MODULUS.0@;')
        u.append('    let ghost A = val(av, %d); let ghost Bv = val(bv, %d); let ghost PP = val(pv, %d);' % (n, n, n))
        u.append('    let ghost X = (A * Bv) as int; let ghost P_ = PP as int;')
        u.append('    let ghost mut m: int = 0; let ghost mut c0: Seq<u64> = Seq::empty(); let ghost mut cprev: Seq<u64> = Seq::empty(); let ghost mut cc: int = 0;')
        u.append('    proof { lemma_cfg_wf(); val_bound(pv, %d); val_bound(bv, %d); val_bound(av, %d); bpow_pos(%d);' % (n, n, n, n))
        for j in range(n):
            u.append('        assert(pv[%d] == %du64);' % (j, pl[j]))
        u.append('    }')
        u.append('//@at after["let mut scratch = [0u64; %dusize];"]' % n2)
        u.append('    proof { val_zero(scratch@, %d); assert(val(av, 0) * Bv == 0) by(nonlinear_arith) requires val(av, 0) == 0; cprev_row = scratch@; %s }' % (n2, ' '.join('assert(scratch@[%d] == 0);' % q for q in range(n2))))
        # ---------------- phase 1
        for i in range(n):
            for j in range(n):
                k = i + j
                stmt = "scratch[%dusize] = fa::mac_with_carry(scratch[%dusize], (a.0).0[%dusize], (b.0).0[%dusize], &mut carry);" % (k, k, i, j)
                u.append('//@at after["%s"]' % stmt)
                u.append('    proof {')
                if j == 0:
                    u.append('        // row %d starts: c0 is the buffer before the row, carry was 0' % i)
                    u.append('        c0 = cprev_row;')
                    u.append('        cprev = cprev_row; cc = 0;')
                u.append('        let ai = av[%d] as int;' % i)
                if j == 0:
                    u.append('        assert(ai * (val(bv, 0) as int) * (bpow(%d) as int) == 0) by(nonlinear_arith) requires val(bv, 0) == 0;' % i)
                    u.append('        assert(cc * (bpow(%d) as int) == 0) by(nonlinear_arith) requires cc == 0;' % k)
                u.append('        lemma_acc_step(cprev, scratch@, %d, %d, cc, carry as int, av[%d] as nat, bv[%d] as nat, val(c0, %d) as int, val(bv, %d) as int, %d, %d, 0);' % (k, n2, i, j, n2, j, i, j))
                u.append('        assert(val(scratch@, %d) as int + carry as int * (bpow(%d) as int) == val(c0, %d) as int + ai * (val(bv, %d) as int) * (bpow(%d) as int));' % (n2, k + 1, n2, j + 1, i))
                for pp in range(n + i, n2):
                    u.append('        assert(scratch@[%d] == 0);' % pp)
                u.append('        cprev = scratch@; cc = carry as int;')
                u.append('    }')
            u.append('//@at after["scratch[%dusize + %dusize] = carry;"]' % (i, n))
            u.append('    proof {')
            u.append('        assert(val(scratch@, %d) == val(av, %d) * Bv) by {' % (n2, i + 1))
            u.append('            assert(cprev[%d] == 0);' % (n + i))
            u.append('            assert(scratch@ =~= cprev.update(%d, scratch@[%d]));' % (n + i, n + i))
            u.append('            val_update(cprev, %d, scratch@[%d], %d);' % (n + i, n + i, n2))
            u.append('            bpow_add(%d, %d);' % (i, n))
            u.append('            let bi = bpow(%d) as int; let ai = av[%d] as int;' % (i, i))
            u.append('            assert(val(av, %d) == val(av, %d) + av[%d] as nat * bpow(%d));' % (i + 1, i, i, i))
            u.append('            assert((val(av, %d) as int + ai * bi) * (Bv as int) == val(av, %d) as int * (Bv as int) + ai * (Bv as int) * bi) by(nonlinear_arith);' % (i, i))
            u.append('        }')
            for pp in range(n + i + 1, n2):
                u.append('        assert(scratch@[%d] == 0);' % pp)
            u.append('        cprev_row = scratch@;')
            u.append('    }')
        # ---------------- phase 2
        u.append('//@at after["let mut carry2 = 0u64;"]')
        u.append('    proof {')
        u.append('        assert(m * P_ == 0) by(nonlinear_arith) requires m == 0;')
        u.append('        assert(carry2 as int * (bpow(%d) as int) == 0) by(nonlinear_arith) requires carry2 == 0;' % n)
        u.append('        assert(val(scratch@, 0) == 0);')
        u.append('        assert(val(scratch@, %d) as int - val(scratch@, 0) as int + carry2 as int * (bpow(%d) as int) == X + m * P_);' % (n2, n))
        u.append('    }')
        for i in range(n):
            u.append('//@at after["fa::mac(scratch[%dusize], tmp, %du64, &mut carry);"]' % (i, pl[0]))
            u.append('    proof {')
            u.append('        c0 = scratch@; cprev = scratch@; cc = carry as int; c2in = carry2 as int; tq = tmp as int;')
            u.append('        assert(val(scratch@, %d) == val(c0, %d));' % (i + 1, i + 1))
            u.append('        let li = scratch@[%d];' % i)
            u.append('        assert(val(scratch@, %d) as int - val(c0, %d) as int + cc * (bpow(%d) as int) == val(c0, %d) as int - val(c0, %d) as int + tq * (val(pv, 1) as int) * (bpow(%d) as int)) by {' % (n2, i + 1, i + 1, n2, i, i))
            u.append('            lemma_prod(tmp as nat, pv[0] as nat);')
            u.append('            lemma_wrapping_mul(li, Cfg::INV);')
            u.append('            lemma_k(li as nat, Cfg::INV as nat, pv[0] as nat, tmp as nat);')
            u.append('            reveal_with_fuel(val, 2); reveal_with_fuel(bpow, 2);')
            u.append('            assert(val(pv, 1) == pv[0] as nat * bpow(0));')
            u.append('            assert(bpow(%d) == B() * bpow(%d));' % (i + 1, i))
            u.append('            assert(val(c0, %d) == val(c0, %d) + c0[%d] as nat * bpow(%d));' % (i + 1, i, i, i))
            u.append('            // the discarded low word is zero: li + tmp * p0 = carry * B')
            u.append('            let lowv = (li as nat + tmp as nat * pv[0] as nat) % B();')
            u.append('            assert(lowv == 0);')
            u.append('            assert(cc * ((B() as int) * (bpow(%d) as int)) - (li as int) * (bpow(%d) as int) == tq * (pv[0] as int * 1) * (bpow(%d) as int)) by(nonlinear_arith)' % (i, i, i))
            u.append('                requires li as int + tq * (pv[0] as int) == cc * (B() as int);')
            u.append('        }')
            u.append('    }')
            for j in range(1, n):
                k = i + j
                stmt = "scratch[%dusize] = fa::mac_with_carry(scratch[%dusize], tmp, %du64, &mut carry);" % (k, k, pl[j])
                # equal modulus limbs make this text occur for several (i, j) with the same i + j: address the occurrence
                total = sum(1 for ii in range(n) for jj in range(1, n) if ii + jj == k and pl[jj] == pl[j])
                occ = sum(1 for ii in range(n) for jj in range(1, n) if ii + jj == k and pl[jj] == pl[j] and (ii, jj) <= (i, j))
                u.append('//@at after["%s"]%s' % (stmt, "#%d" % occ if total > 1 else ""))
                u.append('    proof {')
                u.append('        lemma_acc_step(cprev, scratch@, %d, %d, cc, carry as int, tmp as nat, pv[%d] as nat, val(c0, %d) as int - val(c0, %d) as int, val(pv, %d) as int, %d, %d, val(c0, %d) as int);' % (k, n2, j, n2, i, j, i, j, i + 1))
                u.append('        assert(val(scratch@, %d) as int - val(c0, %d) as int + carry as int * (bpow(%d) as int) == val(c0, %d) as int - val(c0, %d) as int + tq * (val(pv, %d) as int) * (bpow(%d) as int));' % (n2, i + 1, k + 1, n2, i, j + 1, i))
                u.append('        assert(val(scratch@, %d) == val(c0, %d)) by { val_frame(scratch@, cprev, %d); }' % (i + 1, i + 1, i + 1))
                u.append('        cprev = scratch@; cc = carry as int;')
                u.append('    }')
            u.append('//@at after["carry2 = fa::adc(&mut scratch[%dusize + %dusize], carry, carry2);"]' % (i, n))
            u.append('    proof {')
            u.append('        let m2 = m + tq * (bpow(%d) as int);' % i)
            u.append('        assert(carry2 <= 1 && 0 <= m2 < bpow(%d) && val(scratch@, %d) as int - val(scratch@, %d) as int + carry2 as int * (bpow(%d) as int) == X + m2 * P_) by {' % (i + 1, n2, i + 1, n + i + 1))
            u.append('            let pos = %d; let nw = scratch@[%d]; let oldh = cprev[%d];' % (n + i, n + i, n + i))
            u.append('            assert(scratch@ =~= cprev.update(pos, nw));')
            u.append('            val_update(cprev, %d, nw, %d);' % (n + i, n2))
            u.append('            assert(val(cprev, %d) == val(c0, %d));' % (i + 1, i + 1))
            u.append('            val_frame(scratch@, cprev, %d);' % (i + 1))
            u.append('            bpow_add(%d, %d);' % (n, i))
            u.append('            assert(bpow(%d) == B() * bpow(%d));' % (n + i + 1, n + i))
            u.append('            assert(bpow(%d) == B() * bpow(%d));' % (i + 1, i))
            u.append('            let bp = bpow(%d) as int; let bi = bpow(%d) as int;' % (n + i, i))
            u.append('            assert(nw as int * bp + carry2 as int * ((B() as int) * bp) == (oldh as int + cc + c2in) * bp) by(nonlinear_arith)')
            u.append('                requires nw as int + carry2 as int * (B() as int) == oldh as int + cc + c2in;')
            u.append('            assert((oldh as int + cc + c2in) * bp == oldh as int * bp + cc * bp + c2in * bp) by(nonlinear_arith);')
            u.append('            assert(m2 * P_ == m * P_ + tq * P_ * bi) by(nonlinear_arith) requires m2 == m + tq * bi;')
            u.append('            assert(0 <= m2 < (B() as int) * bi) by(nonlinear_arith) requires 0 <= m < bi, 0 <= tq < B() as int, m2 == m + tq * bi;')
            u.append('        }')
            u.append('        m = m2;')
            u.append('    }')
        u.append('//@at after["(a.0).0 = [%s];"]' % hi_list)
        u.append('    proof {')
        u.append('        let lo = scratch@.subrange(0, %d); let hi = scratch@.subrange(%d, %d);' % (n, n, n2))
        u.append('        assert(lo + hi =~= scratch@);')
        u.append('        val_cat(lo, hi, %d, %d);' % (n, n))
        u.append('        val_frame(scratch@, lo, %d);' % n)
        u.append('        assert(forall|l: int| 0 <= l < %d ==> a.0.0@[l] == hi[l]);' % n)
        u.append('        val_frame(a.0.0@, hi, %d);' % n)
        u.append('        bpow_add(%d, %d);' % (n, n))
        u.append('        let R = bpow(%d); let vh = val(a.0.0@, %d);' % (n, n))
        u.append('        let rr = vh + (if carry2 != 0 { R } else { 0 });')
        u.append('        assert(rr * R == A * Bv + (m as nat) * PP) by(nonlinear_arith)')
        u.append('            requires (val(lo, %d) + R * vh) as int - val(lo, %d) as int + carry2 as int * ((R * R) as int) == (A * Bv) as int + m * (PP as int),' % (n, n))
        u.append('                rr == vh + (if carry2 != 0 { R } else { 0 }), carry2 <= 1, m >= 0;')
        u.append('        lemma_lt(rr, A, PP, Bv, m as nat, R);')
        u.append('        lemma_rel_from_witness(rr, R, A * Bv, m as nat, PP);')
        u.append('        if rr >= PP { lemma_rel_shift(rr, A * Bv, PP, R); }')
        u.append('        val_bound(a.0.0@, %d);' % n)
        u.append('    }')
        u.append('//@at fn.end')
        u.append('    proof { val_bound(a.0.0@, %d); }' % n)
        u.append('//@end')
        txt = "\n".join(u)
        # ghost declarations used above
        txt = txt.replace("let ghost mut cc: int = 0;", "let ghost mut cc: int = 0; let ghost mut cprev_row: Seq<u64> = Seq::empty(); let ghost mut c2in: int = 0; let ghost mut tq: int = 0;")
        return txt
    mul_units = ""
    want_mul = os.environ.get("DERIVE_MUL_MAX_N", "2")
    if uses_scratch and n <= int(os.environ.get("DERIVE_SCRATCH_MAX_N", "3")):
        mul_units = mul_unit_scratch_replay("mul_assign")
    if not uses_scratch and n <= int(os.environ.get("DERIVE_NOCARRY_MAX_N", "12")):
        mul_units = mul_unit_nocarry("mul_assign")
    tpl = open(os.path.join(V, "contracts/c01_derive.vxt")).read()
    copy_hi = "(a.0).0 = [" + ", ".join("%s[%d]" % ("scratch" if uses_scratch else "r", n + i) for i in range(n)) + "];"
    rep = {
        "{KEY}": key, "{NP1}": str(n + 1), "{N}": str(n), "{GENFILE}": gen_rs, "{MODLIT}": lit(pl), "{INV}": "%du64" % inv, "{R2LIT}": lit(r2), "{P0}": "%d" % pl[0],
        "{SPARE}": "true" if spare else "false", "{NOCARRY}": "true" if nocarry else "false",
        "{UNFOLD_LEMMA}": unfold_lemma, "{DIST_LEMMA}": (dist_lemma if False else "// (no multiplication unit at this grid point: lemma_dist omitted)"), "{MODPLAIN}": str(modulus), "{MODNAT}": "%dnat" % modulus, "{MODINT}": "%dint" % modulus, "{RNAT}": "%dnat" % R,
        "{UNFOLD_A}": "lemma_unfold(a.0.0@);", "{COPY_HI_SCRATCH}": copy_hi.replace("r[", "scratch[") if uses_scratch else copy_hi,
        "{COPY_HI_R}": "(a.0).0 = [" + ", ".join("r[%d]" % (n + i) for i in range(n)) + "];",
        "{AARGS}": ", ".join("a.0.0@[%d] as nat" % i for i in range(n)), "{BARGS}": ", ".join("b.0.0@[%d] as nat" % i for i in range(n)),
        "{MUL_SHAPE}": "scratch" if uses_scratch else "nocarry", "{MUL_UNITS}": mul_units,
    }
    for k, v in rep.items():
        tpl = tpl.replace(k, v)
    # conditional sections:  //?scratch ... //?end   kept only for the matching mul shape
    out, keep = [], True
    for line in tpl.split("\n"):
        m = re.match(r"\s*//\?(\w+)\s*$", line)
        if m:
            tag = m.group(1)
            keep = True if tag == "end" else (tag == rep["{MUL_SHAPE}"])
            continue
        if keep:
            out.append(line)
    open(out_vxb, "w").write("\n".join(out))

if __name__ == "__main__":
    main()
