// ---- binary long division (const_modulo!, used by BigInt::montgomery_r / montgomery_r2)
/// one step: with q1 = v / 2^(i+1), rem = q1 % d and bit = bit i of v:  (v / 2^i) % d = (2 rem + bit) reduced once
pub proof fn lemma_longdiv_step(v: nat, i: nat, d: nat, rem: nat)
    requires d > 0, rem == (v / pow2(i + 1)) % d
    ensures
        2 * rem + (v / pow2(i)) % 2 < 2 * d,
        (v / pow2(i)) % d == (if 2 * rem + (v / pow2(i)) % 2 >= d { (2 * rem + (v / pow2(i)) % 2 - d) as nat } else { 2 * rem + (v / pow2(i)) % 2 }),
{
    let q0 = v / pow2(i); let q1 = v / pow2(i + 1); let bit = q0 % 2;
    pow2_pos(i);
    assert(pow2(i + 1) == 2 * pow2(i));
    vstd::arithmetic::div_mod::lemma_div_denominator(v as int, pow2(i) as int, 2);
    assert(pow2(i) * 2 == 2 * pow2(i));
    assert(q1 == q0 / 2);
    vstd::arithmetic::div_mod::lemma_fundamental_div_mod(q0 as int, 2);
    assert(q0 == 2 * q1 + bit);
    vstd::arithmetic::div_mod::lemma_fundamental_div_mod(q1 as int, d as int);
    let k = q1 / d;
    assert(q1 == d * k + rem);
    let t = 2 * rem + bit;
    assert(rem < d);
    assert(q0 == d * (2 * k) + t) by(nonlinear_arith) requires q0 == 2 * q1 + bit, q1 == d * k + rem, t == 2 * rem + bit;
    if t >= d {
        assert(q0 as int == (2 * k + 1) * d + (t - d)) by(nonlinear_arith) requires q0 == d * (2 * k) + t;
        vstd::arithmetic::div_mod::lemma_fundamental_div_mod_converse(q0 as int, d as int, (2 * k + 1) as int, (t - d) as int);
    } else {
        assert(q0 as int == (2 * k) * d + t) by(nonlinear_arith) requires q0 == d * (2 * k) + t;
        vstd::arithmetic::div_mod::lemma_fundamental_div_mod_converse(q0 as int, d as int, (2 * k) as int, t as int);
    }
}

/// an even limb or-ed with a bit is the sum
pub proof fn lemma_or_bit(x: u64, b: u64)
    requires x % 2 == 0, b <= 1
    ensures (x | b) == x + b, x + b <= 0xffff_ffff_ffff_ffffu64
{
    assert((x | b) == x + b && x + b <= 0xffff_ffff_ffff_ffffu64) by(bit_vector) requires x % 2 == 0, b <= 1;
}
