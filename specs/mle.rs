// ---- multilinear extensions in ring view: the defining sum, partial evaluation by folding, and their equality (C17)
pub open spec fn p2(k: nat) -> nat decreases k { if k == 0 { 1 } else { 2 * p2((k - 1) as nat) } }

/// partial evaluation by folding: level d combines the entries 2b and 2b+1 of level d-1 with pt[d-1]
pub open spec fn fold(e: Seq<F>, pt: Seq<F>, d: nat, b: nat) -> int
    decreases d
{
    if d == 0 { e[b as int].v() }
    else { fold(e, pt, (d - 1) as nat, 2 * b) + pt[d - 1].v() * (fold(e, pt, (d - 1) as nat, 2 * b + 1) - fold(e, pt, (d - 1) as nat, 2 * b)) }
}

// ---- the definition: f(x) = sum_{c in {0,1}^d} e[c] * prod_t (c_t ? x_t : 1 - x_t), index bit t <-> variable t (little endian)
/// weight of index c < 2^d at the point pt: the top bit (bit d-1) goes with pt[d-1]
pub open spec fn chi(c: nat, pt: Seq<F>, d: nat) -> int
    decreases d
{
    if d == 0 { 1 }
    else if c >= p2((d - 1) as nat) { chi((c - p2((d - 1) as nat)) as nat, pt, (d - 1) as nat) * pt[d - 1].v() }
    else { chi(c, pt, (d - 1) as nat) * (1 - pt[d - 1].v()) }
}
/// sum_{c < k} e[off + c] * chi(c, pt, d)
pub open spec fn wsum(e: Seq<F>, pt: Seq<F>, d: nat, off: nat, k: nat) -> int
    decreases k
{ if k == 0 { 0 } else { wsum(e, pt, d, off, (k - 1) as nat) + e[(off + k - 1) as int].v() * chi((k - 1) as nat, pt, d) } }

/// the multilinear extension of the 2^d entries e[b * 2^d ..] evaluated at pt[0..d]
pub open spec fn mle_at(e: Seq<F>, pt: Seq<F>, d: nat, b: nat) -> int { wsum(e, pt, d, b * p2(d), p2(d)) }

pub proof fn p2_pos(k: nat) ensures p2(k) > 0 decreases k { if k > 0 { p2_pos((k - 1) as nat); } }

/// low half: for k <= 2^(d-1), sum_{c<k} e[off+c] chi(c, d) = (1 - x) * sum_{c<k} e[off+c] chi(c, d-1)
proof fn lemma_wsum_low(e: Seq<F>, pt: Seq<F>, d: nat, off: nat, k: nat)
    requires d >= 1, k <= p2((d - 1) as nat)
    ensures wsum(e, pt, d, off, k) == (1 - pt[d - 1].v()) * wsum(e, pt, (d - 1) as nat, off, k)
    decreases k
{
    let x = pt[d - 1].v();
    if k == 0 { assert((1 - x) * 0 == 0) by(nonlinear_arith); }
    else {
        lemma_wsum_low(e, pt, d, off, (k - 1) as nat);
        let a = wsum(e, pt, (d - 1) as nat, off, (k - 1) as nat);
        let ev = e[(off + k - 1) as int].v(); let w = chi((k - 1) as nat, pt, (d - 1) as nat);
        assert(chi((k - 1) as nat, pt, d) == w * (1 - x));
        assert((1 - x) * (a + ev * w) == (1 - x) * a + ev * (w * (1 - x))) by(nonlinear_arith);
    }
}
/// high half: sum_{c<k} e[off + 2^(d-1) + c] chi(2^(d-1) + c, d) = x * sum_{c<k} e[off + 2^(d-1) + c] chi(c, d-1), as a suffix of wsum
proof fn lemma_wsum_high(e: Seq<F>, pt: Seq<F>, d: nat, off: nat, k: nat)
    requires d >= 1, k <= p2((d - 1) as nat)
    ensures wsum(e, pt, d, off, p2((d - 1) as nat) + k) == wsum(e, pt, d, off, p2((d - 1) as nat)) + pt[d - 1].v() * wsum(e, pt, (d - 1) as nat, off + p2((d - 1) as nat), k)
    decreases k
{
    let x = pt[d - 1].v(); let h = p2((d - 1) as nat);
    if k == 0 { assert(x * 0 == 0) by(nonlinear_arith); }
    else {
        lemma_wsum_high(e, pt, d, off, (k - 1) as nat);
        let a = wsum(e, pt, (d - 1) as nat, off + h, (k - 1) as nat);
        let ev = e[(off + h + k - 1) as int].v(); let w = chi((k - 1) as nat, pt, (d - 1) as nat);
        assert(chi((h + k - 1) as nat, pt, d) == w * x);
        assert(x * (a + ev * w) == x * a + ev * (w * x)) by(nonlinear_arith);
    }
}
/// folding computes the definition
pub proof fn lemma_fold_is_mle(e: Seq<F>, pt: Seq<F>, d: nat, b: nat)
    ensures fold(e, pt, d, b) == mle_at(e, pt, d, b)
    decreases d
{
    if d == 0 {
        assert(p2(0) == 1);
        assert(wsum(e, pt, 0, b * 1, 1) == wsum(e, pt, 0, b * 1, 0) + e[(b * 1 + 1 - 1) as int].v() * chi(0, pt, 0));
        assert(b * 1 == b) by(nonlinear_arith);
    } else {
        let k = (d - 1) as nat; let h = p2(k); let x = pt[d - 1].v();
        lemma_fold_is_mle(e, pt, k, 2 * b);
        lemma_fold_is_mle(e, pt, k, 2 * b + 1);
        assert(p2(d) == 2 * h);
        assert((2 * b) * h == b * (2 * h)) by(nonlinear_arith);
        assert((2 * b + 1) * h == b * (2 * h) + h) by(nonlinear_arith);
        let off = b * p2(d);
        lemma_wsum_low(e, pt, d, off, h);
        lemma_wsum_high(e, pt, d, off, h);
        let l = wsum(e, pt, k, off, h); let hh = wsum(e, pt, k, off + h, h);
        assert(l + x * (hh - l) == (1 - x) * l + x * hh) by(nonlinear_arith);
    }
}

proof fn lemma_shl_facts(nv: usize, i: usize, b: usize)
    requires nv < 64, 1 <= i <= nv, b < (1usize << ((nv - i) as usize))
    ensures (b << 1) == 2 * b, 2 * b + 1 < (1usize << ((nv - i + 1) as usize)), (1usize << ((nv - i + 1) as usize)) <= (1usize << nv),
        (1usize << ((nv - i + 1) as usize)) == 2 * (1usize << ((nv - i) as usize)),
{
    let k = (nv - i) as usize; let k1 = (nv - i + 1) as usize;
    assert((b << 1) == 2 * b && 2 * b + 1 < (1usize << k1) && (1usize << k1) <= (1usize << nv) && (1usize << k1) == 2 * (1usize << k)) by(bit_vector)
        requires nv < 64, 1 <= i <= nv, k == nv - i, k1 == k + 1, b < (1usize << k);
}

