// ---- limb arithmetic vocabulary (DESIGN §3.1).  Definitions are trusted as definitions; every lemma is proved.
pub open spec fn B() -> nat { 0x1_0000_0000_0000_0000 }

pub open spec fn bpow(i: nat) -> nat
    decreases i
{ if i == 0 { 1 } else { B() * bpow((i - 1) as nat) } }

/// value of the low i limbs of s (little endian)
pub open spec fn val(s: Seq<u64>, i: nat) -> nat
    decreases i
{ if i == 0 { 0 } else { val(s, (i - 1) as nat) + (s[i - 1] as nat) * bpow((i - 1) as nat) } }

pub open spec fn pow2(e: nat) -> nat
    decreases e
{ if e == 0 { 1 } else { 2 * pow2((e - 1) as nat) } }

pub proof fn val_frame(s: Seq<u64>, t: Seq<u64>, i: nat)
    requires forall|j: int| 0 <= j < i ==> s[j] == t[j]
    ensures val(s, i) == val(t, i)
    decreases i
{ if i > 0 { val_frame(s, t, (i - 1) as nat); } }

pub proof fn bpow_pos(i: nat)
    ensures bpow(i) > 0
    decreases i
{ if i > 0 { bpow_pos((i-1) as nat); assert(B() * bpow((i-1) as nat) > 0) by(nonlinear_arith) requires bpow((i-1) as nat) > 0; } }

pub proof fn bpow_step(i: nat)
    ensures bpow(i + 1) == B() * bpow(i)
{ }

pub proof fn bpow_add(i: nat, j: nat)
    ensures bpow(i + j) == bpow(i) * bpow(j)
    decreases j
{
    if j == 0 { assert(bpow(i) * 1 == bpow(i)) by(nonlinear_arith); }
    else {
        bpow_add(i, (j - 1) as nat);
        let a = bpow(i); let b = bpow((j - 1) as nat);
        assert(bpow(i + j) == B() * bpow((i + j - 1) as nat));
        assert(B() * (a * b) == a * (B() * b)) by(nonlinear_arith);
    }
}

pub proof fn bpow_mono(i: nat, j: nat)
    requires i <= j
    ensures bpow(i) <= bpow(j)
    decreases j
{
    if i < j { bpow_mono(i, (j - 1) as nat); bpow_pos((j - 1) as nat);
        assert(bpow((j-1) as nat) <= B() * bpow((j-1) as nat)) by(nonlinear_arith) requires bpow((j-1) as nat) > 0; }
}

pub proof fn val_bound(s: Seq<u64>, i: nat)
    ensures val(s, i) < bpow(i)
    decreases i
{
    if i > 0 {
        val_bound(s, (i-1) as nat);
        let x = s[i-1] as nat; let p = bpow((i-1) as nat); let v = val(s, (i-1) as nat);
        assert(v + x * p < B() * p) by(nonlinear_arith) requires v < p, x < B();
    }
}

pub proof fn val_zero(s: Seq<u64>, i: nat)
    requires forall|j: int| 0 <= j < i ==> s[j] == 0
    ensures val(s, i) == 0
    decreases i
{ if i > 0 { val_zero(s, (i-1) as nat); assert(0 * bpow((i-1) as nat) == 0) by(nonlinear_arith); } }

pub proof fn val_zero_rev(s: Seq<u64>, i: nat)
    requires val(s, i) == 0
    ensures forall|j: int| 0 <= j < i ==> s[j] == 0
    decreases i
{
    if i > 0 {
        bpow_pos((i-1) as nat);
        let x = s[i-1] as nat; let p = bpow((i-1) as nat);
        assert(x == 0) by(nonlinear_arith) requires x * p == 0, p > 0;
        val_zero_rev(s, (i-1) as nat);
    }
}

/// comparison from the top limb down is comparison of values
pub proof fn val_lex_lt(s: Seq<u64>, t: Seq<u64>, n: nat, k: nat)
    requires k < n, s[k as int] < t[k as int], forall|j: int| k < j < n ==> s[j] == t[j]
    ensures val(s, n) < val(t, n)
    decreases n
{
    if n == k + 1 {
        val_bound(s, k); val_bound(t, k);
        let a = s[k as int] as nat; let b = t[k as int] as nat; let p = bpow(k);
        assert(a * p + p <= b * p) by(nonlinear_arith) requires a + 1 <= b;
        assert(val(s, n) == val(s, k) + a * p);
        assert(val(t, n) == val(t, k) + b * p);
    } else {
        val_lex_lt(s, t, (n - 1) as nat, k);
        assert(s[n - 1] == t[n - 1]);
    }
}

pub proof fn val_eq(s: Seq<u64>, t: Seq<u64>, n: nat)
    requires forall|j: int| 0 <= j < n ==> s[j] == t[j]
    ensures val(s, n) == val(t, n)
{ val_frame(s, t, n); }

/// injectivity: equal values imply equal limbs
pub proof fn val_inj(s: Seq<u64>, t: Seq<u64>, n: nat)
    requires val(s, n) == val(t, n)
    ensures forall|j: int| 0 <= j < n ==> s[j] == t[j]
    decreases n
{
    if n > 0 {
        let k = (n - 1) as nat;
        val_bound(s, k); val_bound(t, k); bpow_pos(k);
        let a = s[k as int] as nat; let b = t[k as int] as nat; let p = bpow(k);
        let vs = val(s, k); let vt = val(t, k);
        assert(a == b) by(nonlinear_arith) requires vs + a * p == vt + b * p, vs < p, vt < p, p > 0;
        assert(a * p == b * p);
        val_inj(s, t, k);
    }
}

pub proof fn pow2_pos(e: nat) ensures pow2(e) > 0 decreases e { if e > 0 { pow2_pos((e-1) as nat); } }

pub proof fn pow2_add(a: nat, b: nat)
    ensures pow2(a + b) == pow2(a) * pow2(b)
    decreases b
{
    if b == 0 { assert(pow2(a) * 1 == pow2(a)) by(nonlinear_arith); }
    else { pow2_add(a, (b-1) as nat); let x = pow2(a); let y = pow2((b-1) as nat);
        assert(pow2(a + b) == 2 * pow2((a + b - 1) as nat));
        assert(2 * (x * y) == x * (2 * y)) by(nonlinear_arith); }
}

pub proof fn pow2_64()
    ensures pow2(64) == B()
{
    reveal_with_fuel(pow2, 17);
    assert(pow2(16) == 65536);
    pow2_add(16, 16); pow2_add(32, 32);
    assert(pow2(32) == 65536 * 65536);
    assert(pow2(64) == pow2(32) * pow2(32));
    assert(65536 * 65536 == 0x1_0000_0000) by(nonlinear_arith);
    assert(0x1_0000_0000 * 0x1_0000_0000 == 0x1_0000_0000_0000_0000) by(nonlinear_arith);
}

pub proof fn bpow_is_pow2(i: nat)
    ensures bpow(i) == pow2(64 * i)
    decreases i
{
    if i > 0 { bpow_is_pow2((i-1) as nat); pow2_64(); pow2_add(64, (64 * (i - 1)) as nat); assert(64 + 64 * (i - 1) == 64 * i); }
}

/// changing limb k changes the value by (x - s[k]) * B^k
pub proof fn val_update(s: Seq<u64>, k: nat, x: u64, n: nat)
    requires k < n, n <= s.len()
    ensures val(s.update(k as int, x), n) + (s[k as int] as nat) * bpow(k) == val(s, n) + (x as nat) * bpow(k)
    decreases n
{
    let t = s.update(k as int, x);
    if n == k + 1 {
        val_frame(s, t, k);
    } else {
        val_update(s, k, x, (n - 1) as nat);
        assert(t[n - 1] == s[n - 1]);
    }
}

/// p odd, p | 2d  ==>  p | d
pub proof fn lemma_halve(d: int, p: int)
    requires p > 0, p % 2 == 1, (2 * d) % p == 0
    ensures d % p == 0
{
    let q = (2 * d) / p; let h = p / 2;
    vstd::arithmetic::div_mod::lemma_fundamental_div_mod(2 * d, p);
    assert(2 * d == p * q);
    assert(p == 2 * h + 1);
    assert(p * q == 2 * (h * q) + q) by(nonlinear_arith) requires p == 2 * h + 1;
    let q2 = d - h * q;
    assert(q == 2 * q2);
    assert(p * q == 2 * (p * q2)) by(nonlinear_arith) requires q == 2 * q2;
    assert(d == p * q2);
    vstd::arithmetic::div_mod::lemma_mod_multiples_basic(q2, p);
    assert(p * q2 == q2 * p) by(nonlinear_arith);
}
