// ---- squaring by off-diagonal products, doubling and diagonal squares (MontConfig::square_in_place default)
/// od(a, n, i) = sum_{i' < i} a[i'] * B^i' * (val(a, n) - val(a, i' + 1)): the products a[i'] * a[j] * B^(i'+j), i' < i, i' < j < n
pub open spec fn od(a: Seq<u64>, n: nat, i: nat) -> int
    decreases i
{ if i == 0 { 0 } else { od(a, n, (i - 1) as nat) + (a[i - 1] as int) * (bpow((i - 1) as nat) as int) * (val(a, n) as int - val(a, i) as int) } }

/// sq(a, i) = sum_{i' < i} a[i']^2 * B^(2 i')
pub open spec fn sq(a: Seq<u64>, i: nat) -> int
    decreases i
{ if i == 0 { 0 } else { sq(a, (i - 1) as nat) + (a[i - 1] as int) * (a[i - 1] as int) * (bpow((2 * (i - 1)) as nat) as int) } }

/// 2 * od(i) + sq(i) = A^2 - (A - val(a, i))^2; at i = n this is A^2
pub proof fn lemma_square_split(a: Seq<u64>, n: nat, i: nat)
    requires i <= n
    ensures 2 * od(a, n, i) + sq(a, i) == (val(a, n) as int) * (val(a, n) as int) - (val(a, n) as int - val(a, i) as int) * (val(a, n) as int - val(a, i) as int)
    decreases i
{
    let av = val(a, n) as int;
    if i == 0 {
        assert(val(a, 0) == 0);
        assert(av * av - (av - 0) * (av - 0) == 0) by(nonlinear_arith);
    } else {
        let k = (i - 1) as nat;
        lemma_square_split(a, n, k);
        let x = a[k as int] as int; let b = bpow(k) as int;
        bpow_add(k, k);
        assert(bpow((2 * k) as nat) == bpow(k) * bpow(k));
        let t1 = av - val(a, i) as int;       // T_i
        let t0 = av - val(a, k) as int;       // T_{i-1} = T_i + x * b
        assert(val(a, i) == val(a, k) + a[k as int] as nat * bpow(k));
        assert(t0 == t1 + x * b);
        assert(t0 * t0 == t1 * t1 + 2 * (x * b * t1) + x * x * (b * b)) by(nonlinear_arith) requires t0 == t1 + x * b;
    }
}


/// limbs k..n all zero: the value is that of the low k limbs
pub proof fn lemma_val_high_zero_c01(s: Seq<u64>, k: nat, n: nat)
    requires k <= n, forall|j: int| k <= j < n ==> s[j] == 0
    ensures val(s, n) == val(s, k)
    decreases n
{
    if n > k {
        lemma_val_high_zero_c01(s, k, (n - 1) as nat);
        assert(0 * bpow((n - 1) as nat) == 0) by(nonlinear_arith);
    }
}

