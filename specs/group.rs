// ---- module view of a group (DESIGN 3.2, additive analogue of the ring view): every element occurring in a scalar
//      multiplication is an integer multiple of one fixed base point; an element is viewed as that integer.  Postconditions
//      discharged in this view are Z-linear identities, hence valid in every abelian group (Z-module).
#[derive(Clone, Copy)]
pub struct G { pub g: Ghost<int> }
impl G {
    pub open spec fn m(&self) -> int { self.g@ }
    pub fn zero() -> (r: G) ensures r.m() == 0 { G { g: Ghost(0) } }
    pub fn double(&self) -> (r: G) ensures r.m() == 2 * self.m() { G { g: Ghost(2 * self.m()) } }
    pub fn double_in_place(&mut self) -> (r: &mut Self)
        ensures (*r).m() == 2 * old(self).m(), *final(self) == *final(r) { self.g = Ghost(2 * self.m()); self }
}
pub open spec fn gmk(x: int) -> G { G { g: Ghost(x) } }
impl<'a> vstd::std_specs::ops::AddAssignSpecImpl<&'a G> for G {
    open spec fn obeys_add_assign_spec() -> bool { true }
    open spec fn add_assign_req(&self, rhs: &'a G) -> bool { true }
    open spec fn add_assign_spec(&self, rhs: &'a G) -> &G { &gmk(self.m() + rhs.m()) }
}
impl<'a> core::ops::AddAssign<&'a G> for G {
    fn add_assign(&mut self, rhs: &'a G) { self.g = Ghost(self.m() + rhs.m()); } }
impl<'a> vstd::std_specs::ops::SubAssignSpecImpl<&'a G> for G {
    open spec fn obeys_sub_assign_spec() -> bool { true }
    open spec fn sub_assign_req(&self, rhs: &'a G) -> bool { true }
    open spec fn sub_assign_spec(&self, rhs: &'a G) -> &G { &gmk(self.m() - rhs.m()) }
}
impl<'a> core::ops::SubAssign<&'a G> for G {
    fn sub_assign(&mut self, rhs: &'a G) { self.g = Ghost(self.m() - rhs.m()); } }

/// digits k.. of a signed-digit string, scaled down: hs(d, k) = sum_{i >= k} d[i] 2^(i-k)
pub open spec fn hs(d: Seq<i64>, k: nat) -> int
    decreases d.len() - k
{ if k >= d.len() { 0 } else { d[k as int] as int + 2 * hs(d, k + 1) } }

impl vstd::std_specs::ops::AddAssignSpecImpl<G> for G {
    open spec fn obeys_add_assign_spec() -> bool { true }
    open spec fn add_assign_req(&self, rhs: G) -> bool { true }
    open spec fn add_assign_spec(&self, rhs: G) -> &G { &gmk(self.m() + rhs.m()) }
}
impl core::ops::AddAssign<G> for G {
    fn add_assign(&mut self, rhs: G) { self.g = Ghost(self.m() + rhs.m()); } }
