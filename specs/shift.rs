// ---- bit- and limb-level facts about shifting a little-endian limb vector (C15 shifts)
pub proof fn pow2_lt_u64(r: nat)
    requires r < 64
    ensures pow2(r) == (1u64 << (r as u64)) as nat, pow2(r) < B()
    decreases r
{
    let rr = r as u64;
    if r == 0 { assert((1u64 << 0u64) == 1u64) by(bit_vector); }
    else {
        pow2_lt_u64((r - 1) as nat);
        let q = (r - 1) as u64;
        assert((1u64 << rr) == 2 * (1u64 << q) && (1u64 << q) < 0x8000_0000_0000_0000u64) by(bit_vector) requires rr == q + 1, rr < 64;
    }
}

/// one limb of a left shift by 1 <= r <= 63 bits
pub proof fn lemma_shl_limb(x: u64, t: u64, r: u32)
    requires 1 <= r <= 63, (t as nat) < pow2(r as nat)
    ensures
        (((x << r) | t) as nat) + ((x >> ((64 - r) as u32)) as nat) * B() == (x as nat) * pow2(r as nat) + t as nat,
        ((x >> ((64 - r) as u32)) as nat) < pow2(r as nat),
{
    pow2_lt_u64(r as nat);
    let p = 1u64 << (r as u64);
    let rr = r as u64;
    let s = (64 - r) as u64;
    let hi = x >> s; let lo = x << rr;
    assert(x << r == lo) by(bit_vector) requires lo == x << rr, rr == r as u64, 1 <= r <= 63;
    assert(x >> ((64 - r) as u32) == hi) by(bit_vector) requires hi == x >> s, s == (64 - r) as u64, 1 <= r <= 63;
    assert((lo | t) == lo + t && lo + t <= 0xffff_ffff_ffff_ffffu64) by(bit_vector) requires lo == x << rr, t < (1u64 << rr), 1 <= rr <= 63;
    assert(hi < p) by(bit_vector) requires hi == x >> s, p == 1u64 << rr, s == 64 - rr, 1 <= rr <= 63;
    // x * 2^r == hi * 2^64 + lo, in 128 bits
    let x1 = x as u128; let p1 = p as u128; let hi1 = hi as u128; let lo1 = lo as u128;
    assert(x1 * p1 == hi1 * 0x1_0000_0000_0000_0000u128 + lo1) by(bit_vector)
        requires x1 == x as u128, p1 == p as u128, hi1 == hi as u128, lo1 == lo as u128, hi == x >> s, lo == x << rr, p == 1u64 << rr, s == 64 - rr, 1 <= rr <= 63;
    assert((x as nat) * (p as nat) == (hi as nat) * B() + lo as nat) by(nonlinear_arith)
        requires x1 * p1 == hi1 * 0x1_0000_0000_0000_0000u128 + lo1, x1 == x as u128, p1 == p as u128, hi1 == hi as u128, lo1 == lo as u128, B() == 0x1_0000_0000_0000_0000;
}

/// one limb of a right shift by 1 <= r <= 63 bits; t carries the low r bits of the limb above, moved to the top
pub proof fn lemma_shr_limb(x: u64, t: u64, r: u32)
    requires 1 <= r <= 63, (t >> ((64 - r) as u32)) << ((64 - r) as u32) == t
    ensures
        pow2(r as nat) * (((x >> r) | t) as nat) + ((x << ((64 - r) as u32)) >> ((64 - r) as u32)) as nat
            == (x as nat) + ((t >> ((64 - r) as u32)) as nat) * B(),
        (((x << ((64 - r) as u32)) >> ((64 - r) as u32)) as nat) < pow2(r as nat),
        ((x << ((64 - r) as u32)) >> ((64 - r) as u32)) << ((64 - r) as u32) == (x << ((64 - r) as u32)),
{
    pow2_lt_u64(r as nat);
    let rr = r as u64;
    let s = (64 - r) as u64;
    let p = 1u64 << rr;
    let c = t >> s;
    let low = (x << s) >> s;
    let nw = (x >> rr) | t;
    assert(t >> ((64 - r) as u32) == c && (x << ((64 - r) as u32)) >> ((64 - r) as u32) == low && ((x >> r) | t) == nw
           && (((x << ((64 - r) as u32)) >> ((64 - r) as u32)) << ((64 - r) as u32) == (x << ((64 - r) as u32))))
        by(bit_vector) requires c == t >> s, low == (x << s) >> s, nw == (x >> rr) | t, s == (64 - r) as u64, rr == r as u64, 1 <= r <= 63;
    assert(c << s == t) by(bit_vector) requires (t >> ((64 - r) as u32)) << ((64 - r) as u32) == t, c == t >> s, s == (64 - r) as u64, 1 <= r <= 63;
    assert(low < p) by(bit_vector) requires low == (x << s) >> s, p == 1u64 << rr, s == 64 - rr, 1 <= rr <= 63;
    let x1 = x as u128; let p1 = p as u128; let c1 = c as u128; let low1 = low as u128; let nw1 = nw as u128;
    assert(p1 * nw1 + low1 == x1 + c1 * 0x1_0000_0000_0000_0000u128) by(bit_vector)
        requires x1 == x as u128, p1 == p as u128, c1 == c as u128, low1 == low as u128, nw1 == nw as u128,
            c << s == t, c == t >> s, low == (x << s) >> s, nw == (x >> rr) | t, p == 1u64 << rr, s == 64 - rr, 1 <= rr <= 63;
    assert((p as nat) * (nw as nat) + low as nat == (x as nat) + (c as nat) * B()) by(nonlinear_arith)
        requires p1 * nw1 + low1 == x1 + c1 * 0x1_0000_0000_0000_0000u128, x1 == x as u128, p1 == p as u128, c1 == c as u128, low1 == low as u128, nw1 == nw as u128, B() == 0x1_0000_0000_0000_0000;
}

/// whole-limb left shift: t = 0 :: s[0..n-1]
pub proof fn lemma_limbs_shl_aux(s: Seq<u64>, t: Seq<u64>, m: nat)
    requires m >= 1, t[0] == 0, forall|j: int| 1 <= j < m ==> t[j] == s[j - 1]
    ensures val(t, m) == B() * val(s, (m - 1) as nat)
    decreases m
{
    if m == 1 { assert(val(t, 1) == val(t, 0) + (t[0] as nat) * bpow(0)); assert(val(t, 0) == 0); assert(val(s, 0) == 0); }
    else {
        lemma_limbs_shl_aux(s, t, (m - 1) as nat);
        let x = s[m - 2] as nat; let p = bpow((m - 2) as nat);
        assert(bpow((m - 1) as nat) == B() * p);
        assert(x * (B() * p) == B() * (x * p)) by(nonlinear_arith);
        assert(B() * (val(s, (m - 2) as nat) + x * p) == B() * val(s, (m - 2) as nat) + B() * (x * p)) by(nonlinear_arith);
    }
}

pub proof fn lemma_limbs_shl(s: Seq<u64>, t: Seq<u64>, n: nat)
    requires n >= 1, t[0] == 0, forall|j: int| 1 <= j < n ==> t[j] == s[j - 1]
    ensures val(t, n) == (val(s, n) * B()) % bpow(n)
{
    lemma_limbs_shl_aux(s, t, n);
    val_bound(t, n);
    let x = s[n - 1] as nat; let p = bpow((n - 1) as nat); let v = val(s, (n - 1) as nat);
    assert(bpow(n) == B() * p);
    assert((v + x * p) * B() == x * (B() * p) + B() * v) by(nonlinear_arith);
    vstd::arithmetic::div_mod::lemma_fundamental_div_mod_converse((val(s, n) * B()) as int, bpow(n) as int, x as int, val(t, n) as int);
}

/// whole-limb right shift: t = s[1..n] :: 0
pub proof fn lemma_limbs_shr_aux(s: Seq<u64>, t: Seq<u64>, m: nat)
    requires m >= 1, forall|j: int| 0 <= j < m - 1 ==> t[j] == s[j + 1]
    ensures val(s, m) == s[0] as nat + B() * val(t, (m - 1) as nat)
    decreases m
{
    if m == 1 { assert(val(s, 1) == val(s, 0) + (s[0] as nat) * bpow(0)); assert(val(s, 0) == 0); assert(val(t, 0) == 0); assert(bpow(0) == 1); }
    else {
        lemma_limbs_shr_aux(s, t, (m - 1) as nat);
        let x = s[m - 1] as nat; let p = bpow((m - 2) as nat);
        assert(t[m - 2] == s[m - 1]);
        assert(bpow((m - 1) as nat) == B() * p);
        assert(x * (B() * p) == B() * (x * p)) by(nonlinear_arith);
        assert(B() * (val(t, (m - 2) as nat) + x * p) == B() * val(t, (m - 2) as nat) + B() * (x * p)) by(nonlinear_arith);
    }
}

pub proof fn lemma_limbs_shr(s: Seq<u64>, t: Seq<u64>, n: nat)
    requires n >= 1, t[n - 1] == 0, forall|j: int| 0 <= j < n - 1 ==> t[j] == s[j + 1]
    ensures val(t, n) == val(s, n) / B()
{
    lemma_limbs_shr_aux(s, t, n);
    assert(val(t, n) == val(t, (n - 1) as nat) + (t[n - 1] as nat) * bpow((n - 1) as nat));
    assert(0 * bpow((n - 1) as nat) == 0) by(nonlinear_arith);
    let q = val(t, n);
    assert(B() * q == q * B()) by(nonlinear_arith);
    vstd::arithmetic::div_mod::lemma_fundamental_div_mod_converse(val(s, n) as int, B() as int, q as int, s[0] as int);
}

/// (x * a % m) * b % m == x * (a * b) % m
pub proof fn lemma_shl_compose(x: nat, a: nat, b: nat, m: nat)
    requires m > 0
    ensures (((x * a) % m) * b) % m == (x * (a * b)) % m
{
    vstd::arithmetic::div_mod::lemma_mul_mod_noop_left((x * a) as int, b as int, m as int);
    assert((x * a) * b == x * (a * b)) by(nonlinear_arith);
}

/// (x / a) / b == x / (a * b)
pub proof fn lemma_shr_compose(x: nat, a: nat, b: nat)
    requires a > 0, b > 0
    ensures (x / a) / b == x / (a * b)
{
    vstd::arithmetic::div_mod::lemma_div_denominator(x as int, a as int, b as int);
}

/// shifting out everything
pub proof fn lemma_shift_all(x: nat, n: nat, r: nat)
    requires x < bpow(n), r >= 64 * n
    ensures (x * pow2(r)) % bpow(n) == 0, x / pow2(r) == 0
{
    bpow_is_pow2(n);
    let e = (r - 64 * n) as nat;
    pow2_add(64 * n, e);
    pow2_pos(e); bpow_pos(n);
    assert(x * (bpow(n) * pow2(e)) == (x * pow2(e)) * bpow(n)) by(nonlinear_arith);
    vstd::arithmetic::div_mod::lemma_mod_multiples_basic((x * pow2(e)) as int, bpow(n) as int);
    assert(bpow(n) <= bpow(n) * pow2(e)) by(nonlinear_arith) requires pow2(e) >= 1, bpow(n) > 0;
    vstd::arithmetic::div_mod::lemma_basic_div(x as int, pow2(r) as int);
}

/// limbs m..n of s, scaled down by B^m
pub open spec fn val_from(s: Seq<u64>, m: nat, n: nat) -> nat
    decreases n
{ if n <= m { 0 } else { val_from(s, m, (n - 1) as nat) + (s[n - 1] as nat) * bpow((n - 1 - m) as nat) } }

pub proof fn lemma_val_from(s: Seq<u64>, m: nat, n: nat)
    requires m <= n
    ensures val(s, n) == val(s, m) + bpow(m) * val_from(s, m, n)
    decreases n
{
    if n == m { assert(bpow(m) * 0 == 0) by(nonlinear_arith); }
    else {
        lemma_val_from(s, m, (n - 1) as nat);
        bpow_add(m, (n - 1 - m) as nat);
        let x = s[n - 1] as nat; let bm = bpow(m); let bk = bpow((n - 1 - m) as nat); let v = val_from(s, m, (n - 1) as nat);
        assert(bm * (v + x * bk) == bm * v + x * (bm * bk)) by(nonlinear_arith);
    }
}
