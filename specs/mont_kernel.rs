// ---- lemmas for the 2N-limb multiplication kernel and the in-place cyclic Montgomery reduction (only c01_mont includes this file:
//      the derive-grid proofs are sensitive to extra definitions in their context)

// ---- 2N-limb view of the (lo, hi) product buffer
pub proof fn lemma_split_u128(t: u128)
    ensures (t as u64) as nat + ((t >> 64) as u64) as nat * B() == t as nat
{
    assert((t as u64) as nat + ((t >> 64) as u64) as nat * 0x1_0000_0000_0000_0000 == t as nat) by(bit_vector);
}

pub proof fn lemma_mul_u64_bound(b: u64, c: u64)
    ensures b as nat * c as nat <= 0xffff_ffff_ffff_fffe_0000_0000_0000_0001
{
    assert(b as nat * c as nat <= 0xffff_ffff_ffff_ffff * 0xffff_ffff_ffff_ffff) by(nonlinear_arith)
        requires b as nat <= 0xffff_ffff_ffff_ffff, c as nat <= 0xffff_ffff_ffff_ffff;
}

/// val of a concatenation: the low n limbs are `lo`, above them `hi` scaled by B^n
pub proof fn val_cat(lo: Seq<u64>, hi: Seq<u64>, n: nat, k: nat)
    requires lo.len() == n, hi.len() >= k
    ensures val(lo + hi, n + k) == val(lo, n) + bpow(n) * val(hi, k)
    decreases k
{
    let c = lo + hi;
    if k == 0 {
        val_frame(c, lo, n);
        assert(bpow(n) * 0 == 0) by(nonlinear_arith);
    } else {
        val_cat(lo, hi, n, (k - 1) as nat);
        assert(c[(n + k - 1) as int] == hi[(k - 1) as int]);
        bpow_add(n, (k - 1) as nat);
        let h = hi[(k - 1) as int] as nat; let bn = bpow(n); let bk = bpow((k - 1) as nat); let v = val(hi, (k - 1) as nat);
        assert(bn * (v + h * bk) == bn * v + h * (bn * bk)) by(nonlinear_arith);
    }
}


/// one multiply-accumulate step at limb position k = i + j of a 2N-limb accumulator
pub proof fn lemma_row_step(vc: int, cc: int, bk: int, ck: int, x: int, y: int, nw: int, c1: int, rhs0: int, vyj: int, bi: int, bj: int)
    requires vc + cc * bk == rhs0 + x * vyj * bi, nw + c1 * (B() as int) == ck + x * y + cc, bk == bi * bj
    ensures (vc - ck * bk + nw * bk) + c1 * ((B() as int) * bk) == rhs0 + x * (vyj + y * bj) * bi
{
    assert((nw + c1 * (B() as int)) * bk == (ck + x * y + cc) * bk);
    assert(nw * bk + c1 * ((B() as int) * bk) == ck * bk + (x * y) * bk + cc * bk) by(nonlinear_arith)
        requires (nw + c1 * (B() as int)) * bk == (ck + x * y + cc) * bk;
    assert((x * y) * bk == x * (y * bj) * bi) by(nonlinear_arith) requires bk == bi * bj;
    assert(x * (vyj + y * bj) * bi == x * vyj * bi + x * (y * bj) * bi) by(nonlinear_arith);
}


/// cyclic index: (i + s) mod n for 0 <= i <= n, 0 <= s < n, without `%`
pub open spec fn ridx(i: int, s: int, n: int) -> int { if i + s < n { i + s } else { i + s - n } }

pub proof fn ridx_mod(i: int, s: int, n: int)
    requires 0 <= i <= n, 0 <= s < n
    ensures (i + s) % n == ridx(i, s, n), 0 <= ridx(i, s, n) < n
{
    if i + s < n { vstd::arithmetic::div_mod::lemma_small_mod((i + s) as nat, n as nat); }
    else { vstd::arithmetic::div_mod::lemma_mod_sub_multiples_vanish(i + s, n); vstd::arithmetic::div_mod::lemma_small_mod((i + s - n) as nat, n as nat); }
}

/// value of the n-limb buffer read cyclically from index i: sum_{s<t} r[ridx(i,s,n)] * B^s
pub open spec fn rotval(r: Seq<u64>, n: nat, i: nat, t: nat) -> nat
    decreases t
{ if t == 0 { 0 } else { rotval(r, n, i, (t - 1) as nat) + (r[ridx(i as int, (t - 1) as int, n as int)] as nat) * bpow((t - 1) as nat) } }

pub proof fn rotval_frame(r: Seq<u64>, q: Seq<u64>, n: nat, i: nat, t: nat)
    requires forall|s: int| 0 <= s < t ==> r[ridx(i as int, s, n as int)] == q[ridx(i as int, s, n as int)]
    ensures rotval(r, n, i, t) == rotval(q, n, i, t)
    decreases t
{
    if t > 0 { rotval_frame(r, q, n, i, (t - 1) as nat); }
}

/// peel the lowest limb: rotval(i, t+1) = r[ridx(i,0)] + B * rotval(i+1, t)
pub proof fn rotval_peel(r: Seq<u64>, n: nat, i: nat, t: nat)
    ensures rotval(r, n, i, t + 1) == r[ridx(i as int, 0, n as int)] as nat + B() * rotval(r, n, i + 1, t)
    decreases t
{
    reveal_with_fuel(rotval, 2);
    if t == 0 {
        let x0 = r[ridx(i as int, 0, n as int)] as nat;
        assert(bpow(0) == 1);
        assert(rotval(r, n, i, 1) == rotval(r, n, i, 0) + x0 * bpow(0));
        assert(x0 * 1 == x0) by(nonlinear_arith);
        assert(rotval(r, n, i + 1, 0) == 0);
        assert(B() * 0 == 0);
    } else {
        rotval_peel(r, n, i, (t - 1) as nat);
        let x = r[ridx(i as int, t as int, n as int)] as nat;
        assert(rotval(r, n, i, t + 1) == rotval(r, n, i, t) + x * bpow(t));
        assert(rotval(r, n, i + 1, t) == rotval(r, n, i + 1, (t - 1) as nat) + r[ridx((i + 1) as int, (t - 1) as int, n as int)] as nat * bpow((t - 1) as nat));
        assert(ridx((i + 1) as int, (t - 1) as int, n as int) == ridx(i as int, t as int, n as int));
        assert(bpow(t) == B() * bpow((t - 1) as nat));
        assert(B() * (rotval(r, n, i + 1, (t - 1) as nat) + x * bpow((t - 1) as nat)) == B() * rotval(r, n, i + 1, (t - 1) as nat) + x * (B() * bpow((t - 1) as nat))) by(nonlinear_arith);
        assert(x * bpow(t) == x * (B() * bpow((t - 1) as nat)));
    }
}

/// reading from index 0 or n is the plain value
pub proof fn rotval_is_val(r: Seq<u64>, n: nat, i: nat, t: nat)
    requires i == 0 || i == n, t <= n
    ensures rotval(r, n, i, t) == val(r, t)
    decreases t
{
    if t > 0 { rotval_is_val(r, n, i, (t - 1) as nat); }
}


// ---- opaque limb products: straight-line (unrolled) bodies keep `prod(x, y)` as an atom, lemmas open it locally
#[verifier::opaque]
pub open spec fn prod(x: nat, y: nat) -> nat { x * y }
pub proof fn lemma_prod(x: nat, y: nat) ensures prod(x, y) == x * y { reveal(prod); }

/// one multiply-accumulate step of an unrolled 2N-limb accumulator, as a context-free lemma:
/// position k = i + j receives x * y + carry; `base` is a part of the value that the row does not touch (0, or the low limbs)
pub proof fn lemma_acc_step(cprev: Seq<u64>, cnew: Seq<u64>, k: nat, n2: nat, cc: int, c1: int, x: nat, y: nat, rhs0: int, vyj: int, i: nat, j: nat, base: int)
    requires k < n2, n2 <= cprev.len(), cnew =~= cprev.update(k as int, cnew[k as int]), k == i + j,
        cnew[k as int] as int + c1 * (B() as int) == cprev[k as int] as int + prod(x, y) as int + cc,
        (val(cprev, n2) as int - base) + cc * (bpow(k) as int) == rhs0 + (x as int) * vyj * (bpow(i) as int),
    ensures (val(cnew, n2) as int - base) + c1 * (bpow(k + 1) as int) == rhs0 + (x as int) * (vyj + (y as int) * (bpow(j) as int)) * (bpow(i) as int)
{
    lemma_prod(x, y);
    let nw = cnew[k as int];
    val_update(cprev, k, nw, n2);
    bpow_add(i, j);
    assert(bpow(k + 1) == B() * bpow(k));
    lemma_row_step(val(cprev, n2) as int - base, cc, bpow(k) as int, cprev[k as int] as int, x as int, y as int, nw as int, c1,
        rhs0, vyj, bpow(i) as int, bpow(j) as int);
}
