// ---- Montgomery vocabulary (DESIGN §3.1)
pub open spec fn mulp(m: nat, p: nat) -> nat { m * p }

/// x·R ≡ y (mod P): "x is the Montgomery quotient of y"
pub open spec fn mont_rel(x: nat, y: nat, p: nat, r: nat) -> bool { (x * r) % p == y % p }

pub proof fn lemma_k(t0: nat, inv: nat, p0: nat, k: nat)
    requires (p0 * inv + 1) % B() == 0, k == (t0 * inv) % B()
    ensures (t0 + k * p0) % B() == 0
{
    let c = (p0 * inv + 1) / B();
    let q = (t0 * inv) / B();
    assert(p0 * inv + 1 == c * B()) by(nonlinear_arith) requires (p0 * inv + 1) % B() == 0, c == (p0 * inv + 1) / B(), B() > 0;
    assert(t0 * inv == q * B() + k) by(nonlinear_arith) requires k == (t0 * inv) % B(), q == (t0*inv)/B(), B() > 0;
    assert(t0 + k * p0 == B() * (t0 * c - q * p0)) by(nonlinear_arith)
        requires p0 * inv + 1 == c * B(), t0 * inv == q * B() + k;
    assert((B() * (t0 * c - q * p0)) % (B() as int) == 0) by(nonlinear_arith) requires B() > 0;
}

pub proof fn lemma_wrapping_mul(a: u64, b: u64)
    ensures a.wrapping_mul(b) as nat == (a as nat * b as nat) % B()
{
    assert(a as nat * b as nat == (a as int) * (b as int)) by(nonlinear_arith);
    // vstd: wrapping_mul(a,b) == (a*b) % 2^64 on ints  (spec of u64::wrapping_mul)
}

pub proof fn lemma_div_exact(x: nat, c: nat)
    requires x % B() == 0, c == x / B()
    ensures x == c * B()
{
    assert(x == c * B()) by(nonlinear_arith) requires x % B() == 0, c == x / B(), B() > 0;
}

pub proof fn lemma_lt(v: nat, a: nat, p: nat, vb: nat, m: nat, bb: nat)
    requires v * bb == a * vb + m * p, vb < bb, m < bb, bb > 0, a < p
    ensures v < a + p
{
    assert(a * vb <= a * bb) by(nonlinear_arith) requires vb < bb;
    assert((m + 1) * p <= bb * p) by(nonlinear_arith) requires m < bb;
    assert(v * bb < (a + p) * bb) by(nonlinear_arith) requires v * bb == a * vb + m * p, a * vb <= a * bb, (m + 1) * p <= bb * p, p > 0;
    assert(v < a + p) by(nonlinear_arith) requires v * bb < (a + p) * bb, bb > 0;
}

pub proof fn lemma_i2(tv: nat, tj: nat, bj: nat, k: nat, vp: nat, pj: nat, vr: nat, nw: nat, bjm1: nat, c2: nat, c2n: nat)
    requires tv + k * vp == B() * vr + c2 * bj, nw + c2n * B() == tj + k * pj + c2, bj == B() * bjm1
    ensures tv + tj * bj + k * (vp + pj * bj) == B() * (vr + nw * bjm1) + c2n * (B() * bj)
{
    assert((nw + c2n * B()) * bj == (tj + k * pj + c2) * bj);
    assert(nw * bj + c2n * (B() * bj) == tj * bj + k * (pj * bj) + c2 * bj) by(nonlinear_arith)
        requires (nw + c2n * B()) * bj == (tj + k * pj + c2) * bj;
    assert(nw * bj == B() * (nw * bjm1)) by(nonlinear_arith) requires bj == B() * bjm1;
    assert(k * (vp + pj * bj) == k * vp + k * (pj * bj)) by(nonlinear_arith);
    assert(B() * (vr + nw * bjm1) == B() * vr + B() * (nw * bjm1)) by(nonlinear_arith);
}

/// from  v·R = a·b + m·P  to the congruence form
pub proof fn lemma_rel_from_witness(v: nat, r: nat, ab: nat, m: nat, p: nat)
    requires v * r == ab + m * p, p > 0
    ensures mont_rel(v, ab, p, r)
{
    vstd::arithmetic::div_mod::lemma_mod_multiples_vanish(m as int, ab as int, p as int);
    assert(m * p == p * m) by(nonlinear_arith);
}

pub proof fn lemma_mod_sub(x: nat, p: nat)
    requires p > 0, x >= p
    ensures (x - p) as nat % p == x % p
{
    vstd::arithmetic::div_mod::lemma_mod_sub_multiples_vanish(x as int, p as int);
}

pub proof fn lemma_mod_small(x: nat, p: nat)
    requires x < p
    ensures x % p == x
{
    vstd::arithmetic::div_mod::lemma_small_mod(x, p);
}

pub proof fn lemma_mod_add_p(x: int, p: int)
    requires p > 0
    ensures (x + p) % p == x % p
{
    vstd::arithmetic::div_mod::lemma_mod_add_multiples_vanish(x, p);
}

pub proof fn lemma_rel_shift(x: nat, y: nat, p: nat, r: nat)
    requires p > 0, x >= p
    ensures mont_rel((x - p) as nat, y, p, r) == mont_rel(x, y, p, r)
{
    let x2 = (x - p) as nat;
    assert(x * r == p * r + x2 * r) by(nonlinear_arith) requires x == x2 + p;
    vstd::arithmetic::div_mod::lemma_mod_multiples_vanish(r as int, (x2 * r) as int, p as int);
}

/// the configuration invariant: what `derive(MontConfig)` / the trait's default constants guarantee
pub open spec fn mont_wf(n: nat, p: Seq<u64>, inv: u64, has_spare: bool, nocarry_mul: bool, nocarry_sq: bool) -> bool {
    &&& n >= 1 && n <= 0x3ff_ffff
    &&& val(p, n) >= 2
    &&& (p[0] as nat * inv as nat + 1) % B() == 0
    &&& has_spare == (2 * val(p, n) < bpow(n))
    &&& (nocarry_mul ==> 2 * val(p, n) < bpow(n))
    &&& (nocarry_sq ==> 2 * val(p, n) < bpow(n))
}
