// ---- signed-digit recodings (C15): value of a digit string, and the arithmetic of one recoding step
pub open spec fn dsum(d: Seq<i64>, k: nat) -> int
    decreases k
{ if k == 0 { 0 } else { dsum(d, (k - 1) as nat) + (d[k - 1] as int) * (pow2((k - 1) as nat) as int) } }

pub proof fn dsum_frame(d: Seq<i64>, e: Seq<i64>, k: nat)
    requires forall|j: int| 0 <= j < k ==> d[j] == e[j]
    ensures dsum(d, k) == dsum(e, k)
    decreases k
{ if k > 0 { dsum_frame(d, e, (k - 1) as nat); } }

/// val(s, n) = s[0] + B * q
pub proof fn lemma_val_low(s: Seq<u64>, n: nat) -> (q: nat)
    requires n >= 1
    ensures val(s, n) == s[0] as nat + B() * q
    decreases n
{
    reveal_with_fuel(val, 2); reveal_with_fuel(bpow, 2);
    if n == 1 { assert(B() * 0 == 0) by(nonlinear_arith); 0 }
    else {
        let q0 = lemma_val_low(s, (n - 1) as nat);
        let x = s[n - 1] as nat; let p = bpow((n - 2) as nat);
        assert(bpow((n - 1) as nat) == B() * p);
        assert(x * (B() * p) == B() * (x * p)) by(nonlinear_arith);
        assert(B() * q0 + B() * (x * p) == B() * (q0 + x * p)) by(nonlinear_arith);
        q0 + x * p
    }
}

pub proof fn pow2_half(w: nat)
    requires w >= 1
    ensures pow2(w) == 2 * pow2((w - 1) as nat), pow2(w) / 2 == pow2((w - 1) as nat), pow2(w) - pow2(w) / 2 == pow2((w - 1) as nat)
{ }

/// the signed residue z of the low limb modulo 2^w, for an odd value v = x0 + B q
pub proof fn lemma_wnaf_digit(v: nat, x0: nat, q: nat, z: int, w: nat)
    requires 1 <= w <= 63, v == x0 + B() * q, x0 < B(), v % 2 == 1,
        (z - x0 as int) % (pow2(w) as int) == 0, -(pow2(w) - pow2(w) / 2) <= z < pow2(w) / 2
    ensures (v as int - z) % (pow2(w) as int) == 0,
        (v as int - z) % 2 == 0,
        z % 2 != 0,
        z >= 0 ==> z <= v,
        -(pow2((w - 1) as nat) as int) <= z < pow2((w - 1) as nat),
{
    let m = pow2(w) as int;
    pow2_pos(w); pow2_half(w);
    pow2_64(); pow2_add(w, (64 - w) as nat);
    let c = pow2((64 - w) as nat) as int;
    // v - z = (x0 - z) + m * (c * q)
    let k = (x0 as int - z) / m;
    vstd::arithmetic::div_mod::lemma_fundamental_div_mod(x0 as int - z, m);
    vstd::arithmetic::div_mod::lemma_fundamental_div_mod(z - x0 as int, m);
    let k2 = (z - x0 as int) / m;
    assert(z - x0 as int == m * k2);
    assert((B() * q) as int == m * (c * q as int)) by(nonlinear_arith) requires B() as int == m * c;
    assert(v as int - z == m * (c * q as int - k2)) by(nonlinear_arith)
        requires v as int == x0 as int + (B() * q) as int, (B() * q) as int == m * (c * q as int), z - x0 as int == m * k2;
    vstd::arithmetic::div_mod::lemma_mod_multiples_basic(c * q as int - k2, m);
    assert(m * (c * q as int - k2) == (c * q as int - k2) * m) by(nonlinear_arith);
    // parity: m is even, so v - z is even, and v is odd
    let h = pow2((w - 1) as nat) as int;
    assert(v as int - z == 2 * (h * (c * q as int - k2))) by(nonlinear_arith)
        requires v as int - z == m * (c * q as int - k2), m == 2 * h;
    vstd::arithmetic::div_mod::lemma_mod_multiples_basic(h * (c * q as int - k2), 2);
    assert(2 * (h * (c * q as int - k2)) == (h * (c * q as int - k2)) * 2) by(nonlinear_arith);
    // 0 <= z < m and z = x0 (mod m)  ==>  z = x0 % m <= x0 <= v
    if z >= 0 {
        assert(x0 as int == (0 - k2) * m + z) by(nonlinear_arith) requires z - x0 as int == m * k2;
        vstd::arithmetic::div_mod::lemma_fundamental_div_mod_converse(x0 as int, m, 0 - k2, z);
        vstd::arithmetic::div_mod::lemma_mod_decreases(x0, m as nat);
        assert(B() * q >= 0);
    }
}

/// setting the (clear) top bit of an n-limb number below B^n / 2 adds B^n / 2
pub proof fn lemma_set_top_bit(s: Seq<u64>, n: nat)
    requires n >= 1, 2 * val(s, n) < bpow(n), s.len() >= n
    ensures 2 * val(s.update(n - 1, s[n - 1] | (1u64 << 63)), n) == 2 * val(s, n) + bpow(n)
{
    let k = (n - 1) as nat; let t = s[k as int];
    val_bound(s, k); bpow_pos(k);
    assert(bpow(n) == B() * bpow(k));
    let v = val(s, k); let p = bpow(k); let tn = t as nat;
    assert(tn < 0x8000_0000_0000_0000) by(nonlinear_arith) requires 2 * (v + tn * p) < B() * p, p > 0, B() == 2 * 0x8000_0000_0000_0000;
    assert((t | (1u64 << 63)) == t + 0x8000_0000_0000_0000u64) by(bit_vector) requires t < 0x8000_0000_0000_0000u64;
    let t2 = t | (1u64 << 63);
    val_update(s, k, t2, n);
    assert(2 * ((tn + 0x8000_0000_0000_0000) * p) == 2 * (tn * p) + B() * p) by(nonlinear_arith) requires B() == 2 * 0x8000_0000_0000_0000;
}

/// a multiple of 2^k (k >= 1) is even and its half is a multiple of 2^(k-1)
pub proof fn lemma_half_mod(x: int, k: nat)
    requires k >= 1, x % (pow2(k) as int) == 0
    ensures x % 2 == 0, (x / 2) % (pow2((k - 1) as nat) as int) == 0
{
    let m = pow2(k) as int; let h = pow2((k - 1) as nat) as int;
    pow2_pos(k); pow2_pos((k - 1) as nat);
    vstd::arithmetic::div_mod::lemma_fundamental_div_mod(x, m);
    let t = x / m;
    assert(x == 2 * (h * t)) by(nonlinear_arith) requires x == m * t, m == 2 * h;
    vstd::arithmetic::div_mod::lemma_mod_multiples_basic(h * t, 2);
    assert((h * t) * 2 == 2 * (h * t)) by(nonlinear_arith);
    assert(x / 2 == h * t);
    vstd::arithmetic::div_mod::lemma_mod_multiples_basic(t, h);
    assert(t * h == h * t) by(nonlinear_arith);
}

/// digit constraint of the width-w NAF: zero, or odd with -2^(w-1) <= d < 2^(w-1)
pub open spec fn wnaf_digit_ok(d: i64, w: nat) -> bool
{ d == 0 || ((d as int) % 2 != 0 && -(pow2((w - 1) as nat) as int) <= d as int && (d as int) < pow2((w - 1) as nat)) }
