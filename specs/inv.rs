// ---- -p^{-1} mod 2^64 by 63 square-and-multiply steps (montgomery_backend::inv): x = 1 (mod 2^m) ==> x^2 = 1 (mod 2^(m+1))
/// e = 1 (mod 2^m), m >= 1  ==>  e^2 = 1 (mod 2^(m+1))
pub proof fn lemma_square_lifts(e: int, m: nat)
    requires m >= 1, (e - 1) % (pow2(m) as int) == 0
    ensures (e * e - 1) % (pow2(m + 1) as int) == 0
{
    let p = pow2(m) as int; pow2_pos(m);
    vstd::arithmetic::div_mod::lemma_fundamental_div_mod(e - 1, p);
    let t = (e - 1) / p;
    assert(e == 1 + p * t);
    // e^2 - 1 = 2 p t + p^2 t^2 = 2p (t + (p/2) t^2), p even
    let h = pow2((m - 1) as nat) as int;
    assert(p == 2 * h);
    assert(e * e - 1 == (2 * p) * (t + h * t * t)) by(nonlinear_arith) requires e == 1 + p * t, p == 2 * h;
    vstd::arithmetic::div_mod::lemma_mod_multiples_basic(t + h * t * t, 2 * p);
    assert((2 * p) * (t + h * t * t) == (t + h * t * t) * (2 * p)) by(nonlinear_arith);
}
/// congruence mod 2^64 restricts to mod 2^k, k <= 64
pub proof fn lemma_mod_restrict(a: int, b: int, k: nat)
    requires k <= 64, (a - b) % (B() as int) == 0
    ensures (a - b) % (pow2(k) as int) == 0
{
    // B = 2^k * 2^(64-k)
    pow2_split(k);
    let p = pow2(k) as int; let c = pow2((64 - k) as nat) as int; pow2_pos(k);
    vstd::arithmetic::div_mod::lemma_fundamental_div_mod(a - b, B() as int);
    let q = (a - b) / (B() as int);
    assert(a - b == p * (c * q)) by(nonlinear_arith) requires a - b == (B() as int) * q, B() as int == p * c;
    vstd::arithmetic::div_mod::lemma_mod_multiples_basic(c * q, p);
    assert(p * (c * q) == (c * q) * p) by(nonlinear_arith);
}
pub proof fn pow2_split(k: nat) requires k <= 64 ensures B() == pow2(k) * pow2((64 - k) as nat)
{ pow2_64(); pow2_add(k, (64 - k) as nat); }


pub open spec fn minv(i: int) -> nat { if i <= 0 { 1 } else if i + 2 <= 64 { (i + 2) as nat } else { 64 } }
/// odd e: e^2 = 1 (mod 8)
pub proof fn lemma_odd_square(e: int)
    requires (e - 1) % 2 == 0
    ensures (e * e - 1) % 8 == 0
{
    let t = (e - 1) / 2;
    assert(e == 2 * t + 1);
    // t (t + 1) is even
    let u = t * (t + 1);
    assert(u % 2 == 0) by {
        if t % 2 == 0 { let h = t / 2; assert(t == 2 * h); assert(t * (t + 1) == 2 * (h * (t + 1))) by(nonlinear_arith) requires t == 2 * h; }
        else { let h = (t + 1) / 2; assert(t + 1 == 2 * h); assert(t * (t + 1) == 2 * (t * h)) by(nonlinear_arith) requires t + 1 == 2 * h; }
    }
    let w = u / 2;
    assert(u == 2 * w);
    assert(e * e - 1 == 8 * w) by(nonlinear_arith) requires e == 2 * t + 1, t * (t + 1) == 2 * w;
}
/// a multiple of 2^a is a multiple of 2^b for b <= a
pub proof fn lemma_pow2_divides(x: int, a: nat, b: nat)
    requires b <= a, x % (pow2(a) as int) == 0
    ensures x % (pow2(b) as int) == 0
{
    pow2_add(b, (a - b) as nat); pow2_pos(a); pow2_pos(b);
    let pa = pow2(a) as int; let pb = pow2(b) as int; let c = pow2((a - b) as nat) as int;
    vstd::arithmetic::div_mod::lemma_fundamental_div_mod(x, pa);
    let q = x / pa;
    assert(x == pb * (c * q)) by(nonlinear_arith) requires x == pa * q, pa == pb * c;
    vstd::arithmetic::div_mod::lemma_mod_multiples_basic(c * q, pb);
    assert(pb * (c * q) == (c * q) * pb) by(nonlinear_arith);
}
