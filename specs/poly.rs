// ---- small polynomial-identity lemmas shared by the ring-view bundles (each proved by Z3's nonlinear mode in isolation)
pub proof fn l_assoc(w: int, p: int, a: int) by(nonlinear_arith) ensures (w * p) * a == w * (p * a) {}
pub proof fn l_dist3(w: int, x: int, y: int, z: int) by(nonlinear_arith) ensures w * x + w * y + w * z == w * (x + y + z) {}
pub proof fn l_scale(bt: int, w: int, t: int) by(nonlinear_arith) ensures bt * (w * t) == w * (bt * t) {}
/// (w p) a + (w q) b + bt ((w r) c) == w (p a + q b + bt (r c))
pub proof fn lemma_lin3(w: int, p: int, a: int, q: int, b: int, r: int, c: int, bt: int)
    ensures (w * p) * a + (w * q) * b + bt * ((w * r) * c) == w * (p * a + q * b + bt * (r * c))
{
    l_assoc(w, p, a); l_assoc(w, q, b); l_assoc(w, r, c); l_scale(bt, w, r * c); l_dist3(w, p * a, q * b, bt * (r * c));
}
/// (w p) a + bt ((w q) b + (w r) c) == w (p a + bt (q b + r c))
pub proof fn lemma_lin3b(w: int, p: int, a: int, q: int, b: int, r: int, c: int, bt: int)
    ensures (w * p) * a + bt * ((w * q) * b + (w * r) * c) == w * (p * a + bt * (q * b + r * c))
{
    l_assoc(w, p, a); l_assoc(w, q, b); l_assoc(w, r, c);
    assert(w * (q * b) + w * (r * c) == w * (q * b + r * c)) by(nonlinear_arith);
    l_scale(bt, w, q * b + r * c);
    assert(w * (p * a) + w * (bt * (q * b + r * c)) == w * (p * a + bt * (q * b + r * c))) by(nonlinear_arith);
}
