// R7 carriers: a Rust `assert!`/`debug_assert!`/`panic!` in extracted code becomes a call whose
// precondition is the "cannot panic" proof obligation.
pub fn vx_assert(b: bool)
    requires b,
{
}

pub fn vx_unreachable() -> (r: bool)
    requires false,
{
    true
}

// core functions without a vstd specification (listed as assumptions in every evidence file)
pub assume_specification[ <u8 as core::convert::From<bool>>::from ](b: bool) -> (r: u8)
    ensures r == (if b { 1u8 } else { 0u8 });
