//! witness search for (de)serialization units
use ark_ec::models::short_weierstrass::SWFlags;
use ark_ff::{Fp64, MontBackend, MontConfig};
use ark_serialize::{CanonicalDeserializeWithFlags, CanonicalSerializeWithFlags, CanonicalDeserialize, Flags};

#[derive(MontConfig)]
#[modulus = "18446744073709551557"]
#[generator = "2"]
pub struct C64;
pub type F64 = Fp64<MontBackend<C64, 1>>;

/// returns Some(description) when a byte string decodes but does not re-encode to itself
pub fn fp_uniqueness(bytes: &[u8]) -> Option<String> {
    match F64::deserialize_with_flags::<_, SWFlags>(bytes) {
        Ok((x, f)) => {
            let mut out = vec![];
            x.serialize_with_flags(&mut out, f).ok()?;
            if out != bytes {
                Some(format!("bytes={:?} decode to ({}, mask {:#x}) which re-encodes to {:?}", bytes, x, f.u8_bitmask(), out))
            } else {
                None
            }
        },
        Err(_) => None,
    }
}

pub fn search(unit: &str) -> Option<String> {
    match unit {
        "c09_f64_sw_uniq" | "Fp::deserialize_with_flags" => {
            for last in [1u8, 0x3f, 0x41, 0x81, 0x20] {
                for lo in [0u8, 1, 0xff] {
                    let mut b = [lo, 0, 0, 0, 0, 0, 0, 0, last];
                    if let Some(w) = fp_uniqueness(&b) {
                        return Some(w);
                    }
                    b[7] = 0x7f;
                    if let Some(w) = fp_uniqueness(&b) {
                        return Some(w);
                    }
                }
            }
            None
        },
        "c18_vec_u8_untrusted_len" | "Vec::deserialize_with_mode" => {
            let r = std::panic::catch_unwind(|| <Vec<u8>>::deserialize_compressed(&[0xffu8; 8][..]).is_ok());
            match r {
                Err(_) => Some("Vec::<u8>::deserialize_compressed(&[0xff; 8]) panics".into()),
                Ok(_) => None,
            }
        },
        _ => None,
    }
}
