//! Hand-written Montgomery configurations that inherit the trait's DEFAULT arithmetic
//! (the derive macro overrides add/sub/double/neg/mul/square/sum_of_products, so shipped fields never run it).
use ark_ff::{BigInt, Fp, MontBackend, MontConfig};

macro_rules! hw {
    ($name:ident, $n:expr, [$($l:expr),*]) => {
        pub struct $name;
        impl MontConfig<$n> for $name {
            const MODULUS: BigInt<$n> = BigInt([$($l),*]);
            const GENERATOR: Fp<MontBackend<Self, $n>, $n> = Fp::new_unchecked(Self::R);
            const TWO_ADIC_ROOT_OF_UNITY: Fp<MontBackend<Self, $n>, $n> = Fp::new_unchecked(Self::R);
        }
    };
}

hw!(HW64m59, 1, [0xffff_ffff_ffff_ffc5]);
hw!(HW61, 1, [0x1fff_ffff_ffff_ffff]);
hw!(HW101, 1, [101]);
hw!(HW63m25, 1, [0x7fff_ffff_ffff_ffe7]);
hw!(HW128m159, 2, [0xffff_ffff_ffff_ff61, 0xffff_ffff_ffff_ffff]);
hw!(HW127, 2, [0xffff_ffff_ffff_ffff, 0x7fff_ffff_ffff_ffff]);
hw!(HW7x2, 2, [7, 0]);
hw!(HW192m237, 3, [0xffff_ffff_ffff_ff13, 0xffff_ffff_ffff_ffff, 0xffff_ffff_ffff_ffff]);
hw!(HW190m11, 3, [0xffff_ffff_ffff_fff5, 0xffff_ffff_ffff_ffff, 0x3fff_ffff_ffff_ffff]);
hw!(HW3x126, 2, [3755, 0xc000_0000_0000_0000]); // 3*2^126 + 3755: no spare bit, limb 0 below 2^63
hw!(HW127p8799, 2, [8799, 0x8000_0000_0000_0000]); // 2^127 + 8799: no spare bit, far from 2^128
