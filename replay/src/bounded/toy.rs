//! Toy configurations: REAL Montgomery fields produced by `#[derive(MontConfig)]`, toy towers and toy curves.
use ark_ec::{
    models::{short_weierstrass::{self as sw, SWCurveConfig}, twisted_edwards::{self as te, MontCurveConfig, TECurveConfig}, CurveConfig},
};
use ark_ff::{Fp2, Fp2Config, Fp3, Fp3Config, Fp64, MontBackend, MontConfig, MontFp};

macro_rules! toy_field {
    ($cfg:ident, $ty:ident, $p:literal, $g:literal) => {
        #[derive(MontConfig)]
        #[modulus = $p]
        #[generator = $g]
        pub struct $cfg;
        pub type $ty = Fp64<MontBackend<$cfg, 1>>;
    };
}
toy_field!(C5, F5, "5", "2");
toy_field!(C7, F7, "7", "3");
toy_field!(C13, F13, "13", "2");
toy_field!(C17, F17, "17", "3");
toy_field!(C19, F19, "19", "2");
toy_field!(C29, F29, "29", "2");
toy_field!(C97, F97, "97", "5");
#[derive(MontConfig)]
#[modulus = "37"]
#[generator = "2"]
#[small_subgroup_base = "3"]
#[small_subgroup_power = "2"]
pub struct C37;
pub type F37 = Fp64<MontBackend<C37, 1>>;
toy_field!(C101, F101, "101", "2");
toy_field!(C107, F107, "107", "2");
toy_field!(C251, F251, "251", "6");
toy_field!(C65521, F65521, "65521", "17");
toy_field!(C65537, F65537, "65537", "3"); // Fermat prime: two-adicity 16
// 64-bit primes with two-adicity 34, 40, 47 (Tonelli-Shanks loops of maximal depth; sampled, see field::sqrt_high_adicity)
toy_field!(CT34, FT34, "9223373256625487873", "3");
toy_field!(CT40, FT40, "9223423713901281281", "3");
toy_field!(CT47, FT47, "9229142273877344257", "5");

// ---- Fp2 over F7 with beta = -1 (7 = 3 mod 4), Fp2 over F13 with beta = 2 (general branch), Fp3 over F7 with beta = 2
pub struct F7x2;
impl Fp2Config for F7x2 {
    type Fp = F7;
    const NONRESIDUE: F7 = MontFp!("-1");
    const FROBENIUS_COEFF_FP2_C1: &'static [F7] = &[MontFp!("1"), MontFp!("-1")];
}
pub type F49 = Fp2<F7x2>;
pub struct F13x2;
impl Fp2Config for F13x2 {
    type Fp = F13;
    const NONRESIDUE: F13 = MontFp!("2");
    const FROBENIUS_COEFF_FP2_C1: &'static [F13] = &[MontFp!("1"), MontFp!("-1")];
}
pub type F169 = Fp2<F13x2>;
pub struct F7x3;
impl Fp3Config for F7x3 {
    type Fp = F7;
    const NONRESIDUE: F7 = MontFp!("2");
    const TWO_ADICITY: u32 = 1;
    const TRACE_MINUS_ONE_DIV_TWO: &'static [u64] = &[85]; // (7^3 - 1) = 2 * 171, (171 - 1) / 2
    const QUADRATIC_NONRESIDUE_TO_T: Fp3<F7x3> = Fp3::new(MontFp!("6"), MontFp!("0"), MontFp!("0")); // -1 = 3^171
    // beta^((7^k - 1)/3), beta^(2 (7^k - 1)/3) for k = 0, 1, 2:  2^2 = 4, 2^16 = 2, ...
    const FROBENIUS_COEFF_FP3_C1: &'static [F7] = &[MontFp!("1"), MontFp!("4"), MontFp!("2")];
    const FROBENIUS_COEFF_FP3_C2: &'static [F7] = &[MontFp!("1"), MontFp!("2"), MontFp!("4")];
}
pub type F343 = Fp3<F7x3>;

// ---- toy curves
macro_rules! sw_curve {
    ($cfg:ident, $base:ty, $scalar:ty, $a:literal, $b:literal, $gx:literal, $gy:literal, $cof:expr, $cofinv:literal) => {
        #[derive(Clone, Copy, PartialEq, Eq, Debug)]
        pub struct $cfg;
        impl CurveConfig for $cfg {
            type BaseField = $base;
            type ScalarField = $scalar;
            const COFACTOR: &'static [u64] = &[$cof];
            const COFACTOR_INV: $scalar = MontFp!($cofinv);
        }
        impl SWCurveConfig for $cfg {
            const COEFF_A: $base = MontFp!($a);
            const COEFF_B: $base = MontFp!($b);
            const GENERATOR: sw::Affine<Self> = sw::Affine::new_unchecked(MontFp!($gx), MontFp!($gy));
        }
    };
}
// y^2 = x^3 + 2 over F_13: 19 points (a = 0, prime order)
sw_curve!(Sw13, F13, F19, "0", "2", "1", "4", 1, "1");
// y^2 = x^3 + 3x + 17 over F_101: 107 points (a != 0, prime order)
sw_curve!(Sw101, F101, F107, "3", "17", "0", "44", 1, "1");
// y^2 = x^3 + x + 3 over F_101: 87 = 3 * 29 points (cofactor 3)
sw_curve!(Sw101c, F101, F29, "1", "3", "4", "24", 3, "10");

// 3 x^2 + y^2 = 1 + 8 x^2 y^2 over F_13: 20 points, cofactor 4, r = 5 (a = 3 is a square, d = 8 is not: complete law)
#[derive(Clone, Copy, PartialEq, Eq, Debug)]
pub struct Te13;
impl CurveConfig for Te13 {
    type BaseField = F13;
    type ScalarField = F5;
    const COFACTOR: &'static [u64] = &[4];
    const COFACTOR_INV: F5 = MontFp!("4");
}
impl TECurveConfig for Te13 {
    const COEFF_A: F13 = MontFp!("3");
    const COEFF_D: F13 = MontFp!("8");
    const GENERATOR: te::Affine<Self> = te::Affine::new_unchecked(MontFp!("6"), MontFp!("9"));
    type MontCurveConfig = Te13;
}
impl MontCurveConfig for Te13 {
    const COEFF_A: F13 = MontFp!("6");
    const COEFF_B: F13 = MontFp!("7");
    type TECurveConfig = Te13;
}

// -x^2 + y^2 = 1 + 7 x^2 y^2 over F_241 (an 8-bit modulus: no spare bit in the top byte): 232 = 8 * 29 points
#[derive(Clone, Copy, PartialEq, Eq, Debug)]
pub struct Te241;
impl CurveConfig for Te241 {
    type BaseField = mnt4a::Fq;
    type ScalarField = F29;
    const COFACTOR: &'static [u64] = &[8];
    const COFACTOR_INV: F29 = MontFp!("11");
}
impl TECurveConfig for Te241 {
    const COEFF_A: mnt4a::Fq = MontFp!("-1");
    const COEFF_D: mnt4a::Fq = MontFp!("7");
    const GENERATOR: te::Affine<Self> = te::Affine::new_unchecked(MontFp!("226"), MontFp!("22"));
    type MontCurveConfig = Te241;
}
impl MontCurveConfig for Te241 {
    const COEFF_A: mnt4a::Fq = MontFp!("119");
    const COEFF_B: mnt4a::Fq = MontFp!("120");
    type TECurveConfig = Te241;
}

// ---- multi-limb derived fields (the generator's unrolled code for N = 2..6; sampled, see field::multi_limb)
macro_rules! wide_field {
    ($cfg:ident, $ty:ident, $n:literal, $p:literal, $g:literal) => {
        #[derive(MontConfig)]
        #[modulus = $p]
        #[generator = $g]
        pub struct $cfg;
        pub type $ty = ark_ff::Fp<MontBackend<$cfg, $n>, $n>;
    };
}
wide_field!(CW2sp, W2sp, 2, "42535295865117307932921825928971026423", "5");
wide_field!(CW2ns, W2ns, 2, "340282366920938463463374607431768211297", "5");
// exactly two spare bits, p close to 2^126: the tightest case of the generated sum_of_products batching bound
wide_field!(CW2s2, W2s2, 2, "85070591730234615865843651857942052727", "5");
// two-adicity 65 (> 64: the low limb of p - 1 is zero): p = 9 * 2^65 + 1
wide_field!(CW2t65, W2t65, 2, "332041393326771929089", "19");
wide_field!(CW2m127, W2m127, 2, "170141183460469231731687303715884105727", "3");
wide_field!(CW3ns, W3ns, 3, "6277101735386680763835789423207666416102355444464034512659", "2");
wide_field!(CW4fr, W4fr, 4, "52435875175126190479447740508185965837690552500527637822603658699938581184513", "5");
wide_field!(CW4secp, W4secp, 4, "115792089237316195423570985008687907853269984665640564039457584007908834671663", "3");
wide_field!(CW6fq, W6fq, 6, "4002409555221667393417789825735904156556882819939007885332058136124031650490837864442687629129015664037894272559787", "2");

// ---- hand-written MontConfig implementations WITHOUT any override: they run the trait's DEFAULT add/sub/double/neg/
//      mul_assign (no-carry CIOS or scratch-buffer branch by the computed flags), square_in_place (off-diagonal + doubling
//      + diagonal + Montgomery reduction over MulBuffer), inverse, from/into_bigint, sum_of_products -- the very bodies the
//      Verus units `MontConfig::*` are extracted from (derive(MontConfig) overrides most of them with generated code)
macro_rules! hand_field {
    ($cfg:ident, $ty:ident, $n:literal, $p:literal, $g:literal, $w:literal) => {
        pub struct $cfg;
        impl ark_ff::MontConfig<$n> for $cfg {
            const MODULUS: ark_ff::BigInt<$n> = ark_ff::BigInt!($p);
            const GENERATOR: ark_ff::Fp<MontBackend<Self, $n>, $n> = ark_ff::MontFp!($g);
            const TWO_ADIC_ROOT_OF_UNITY: ark_ff::Fp<MontBackend<Self, $n>, $n> = ark_ff::MontFp!($w);
        }
        pub type $ty = ark_ff::Fp<MontBackend<$cfg, $n>, $n>;
    };
}
hand_field!(CH2ns, H2ns, 2, "340282366920938463463374607431768211297", "5", "278152612286619921126407258624955093703");
hand_field!(CH2sp, H2sp, 2, "42535295865117307932921825928971026423", "5", "42535295865117307932921825928971026422");
hand_field!(CH2s2, H2s2, 2, "85070591730234615865843651857942052727", "5", "85070591730234615865843651857942052726");
hand_field!(CH3ns, H3ns, 3, "6277101735386680763835789423207666416102355444464034512659", "2", "6277101735386680763835789423207666416102355444464034512658");
hand_field!(CH4secp, H4secp, 4, "115792089237316195423570985008687907853269984665640564039457584007908834671663", "3", "115792089237316195423570985008687907853269984665640564039457584007908834671662");
hand_field!(CH1, H1, 1, "18446744073709551557", "2", "2296021864060584341");

// ---- toy pairing-friendly curves (embedding degree 4, instantiating the MNT4 model): exhaustive bilinearity checks (C06)
//   A: y^2 = x^3 + 2x + 4 over F_241, #E = r = 257 (prime), trace -15: ate loop count -16 (negative), last chunk p - 15
//   B: y^2 = x^3 +  x + 5 over F_1277, #E = 4 * 313, trace 26: ate loop count 25 = NAF(1,0,-1,0,0,1), last chunk 4p + 102
// constants computed by brute force (point counting, NAF, beta^((p^i-1)/4)) with a Python script; every one of them is also
// re-derived by the exhaustive checks (a wrong constant breaks bilinearity / non-degeneracy on all pairs).
use ark_ec::models::mnt4::{MNT4Config, MNT4};
use ark_ff::{Fp4, Fp4Config};
macro_rules! toy_mnt4 {
    ($m:ident, $p:literal, $pg:literal, $r:literal, $rg:literal, $beta:literal, $a:literal, $b:literal, $abeta:literal, $bbeta:literal,
     $gx:literal, $gy:literal, $qx0:literal, $qx1:literal, $qy0:literal, $qy1:literal,
     $h1:expr, $h1inv:literal, $h2:expr, $h2inv:literal, $naf:expr, $neg:expr, $w1:literal, $w0neg:expr, $w0:literal, $f1:literal, $f2:literal, $f3:literal) => {
        pub mod $m {
            use super::*;
            #[derive(MontConfig)]
            #[modulus = $p]
            #[generator = $pg]
            pub struct FqC;
            pub type Fq = Fp64<MontBackend<FqC, 1>>;
            #[derive(MontConfig)]
            #[modulus = $r]
            #[generator = $rg]
            pub struct FrC;
            pub type Fr = Fp64<MontBackend<FrC, 1>>;
            pub struct Fq2C;
            impl Fp2Config for Fq2C {
                type Fp = Fq;
                const NONRESIDUE: Fq = MontFp!($beta);
                const FROBENIUS_COEFF_FP2_C1: &'static [Fq] = &[MontFp!("1"), MontFp!("-1")];
            }
            pub type Fq2 = Fp2<Fq2C>;
            pub struct Fq4C;
            impl Fp4Config for Fq4C {
                type Fp2Config = Fq2C;
                const NONRESIDUE: Fq2 = Fq2::new(MontFp!("0"), MontFp!("1"));
                const FROBENIUS_COEFF_FP4_C1: &'static [Fq] = &[MontFp!("1"), MontFp!($f1), MontFp!($f2), MontFp!($f3)];
            }
            pub type Fq4 = Fp4<Fq4C>;
            #[derive(Clone, Copy, PartialEq, Eq, Debug)]
            pub struct G1C;
            impl CurveConfig for G1C {
                type BaseField = Fq;
                type ScalarField = Fr;
                const COFACTOR: &'static [u64] = &[$h1];
                const COFACTOR_INV: Fr = MontFp!($h1inv);
            }
            impl SWCurveConfig for G1C {
                const COEFF_A: Fq = MontFp!($a);
                const COEFF_B: Fq = MontFp!($b);
                const GENERATOR: sw::Affine<Self> = sw::Affine::new_unchecked(MontFp!($gx), MontFp!($gy));
            }
            #[derive(Clone, Copy, PartialEq, Eq, Debug)]
            pub struct G2C;
            impl CurveConfig for G2C {
                type BaseField = Fq2;
                type ScalarField = Fr;
                const COFACTOR: &'static [u64] = &[$h2];
                const COFACTOR_INV: Fr = MontFp!($h2inv);
            }
            impl SWCurveConfig for G2C {
                const COEFF_A: Fq2 = Fq2::new(MontFp!($abeta), MontFp!("0"));
                const COEFF_B: Fq2 = Fq2::new(MontFp!("0"), MontFp!($bbeta));
                const GENERATOR: sw::Affine<Self> = sw::Affine::new_unchecked(Fq2::new(MontFp!($qx0), MontFp!($qx1)), Fq2::new(MontFp!($qy0), MontFp!($qy1)));
            }
            pub struct Cfg;
            impl MNT4Config for Cfg {
                const TWIST: Fq2 = Fq2::new(MontFp!("0"), MontFp!("1"));
                const TWIST_COEFF_A: Fq2 = Fq2::new(MontFp!($abeta), MontFp!("0"));
                const ATE_LOOP_COUNT: &'static [i8] = &$naf;
                const ATE_IS_LOOP_COUNT_NEG: bool = $neg;
                const FINAL_EXPONENT_LAST_CHUNK_1: ark_ff::BigInt<1> = ark_ff::BigInt([$w1]);
                const FINAL_EXPONENT_LAST_CHUNK_W0_IS_NEG: bool = $w0neg;
                const FINAL_EXPONENT_LAST_CHUNK_ABS_OF_W0: ark_ff::BigInt<1> = ark_ff::BigInt([$w0]);
                type Fp = Fq;
                type Fr = Fr;
                type Fp2Config = Fq2C;
                type Fp4Config = Fq4C;
                type G1Config = G1C;
                type G2Config = G2C;
            }
            pub type Pairing = MNT4<Cfg>;
        }
    };
}
toy_mnt4!(mnt4a, "241", "7", "257", "3", "7", "2", "4", "14", "28", "137", "99", "234", "235", "33", "14",
          1, "1", 225, "8", [1, 0, 0, 0, 0], true, 1, true, 15, "177", "240", "64");
toy_mnt4!(mnt4b, "1277", "2", "313", "5", "2", "1", "5", "2", "10", "867", "1231", "330", "1163", "172", "640",
          4, "235", 5204, "107", [1, 0, -1, 0, 0, 1], false, 4, false, 102, "113", "1276", "1164");

// ---- toy pairing-friendly curves of embedding degree 6 (instantiating the MNT6 model over Fp3 / Fp6_2over3)
//   A: y^2 = x^3 + 2x + 4 over F_571,  #E = 2 * 271, trace 30: ate loop count 29 = NAF(1,0,0,-1,0,1), last chunk 2p + 59
//   B: y^2 = x^3 + 3x + 6 over F_829,  #E = 2 * 397, trace 36: ate loop count 35 = NAF(1,0,0,1,0,-1), last chunk 2p + 71
use ark_ec::models::mnt6::{MNT6Config, MNT6};
macro_rules! toy_mnt6 {
    ($m:ident, $p:literal, $pg:literal, $r:literal, $rg:literal, $beta:literal, $a:literal, $b:literal, $bbeta:literal,
     $gx:literal, $gy:literal, [$qx0:literal, $qx1:literal, $qx2:literal], [$qy0:literal, $qy1:literal, $qy2:literal],
     $h1:expr, $h1inv:literal, $h2:expr, $h2inv:literal, $naf:expr, $neg:expr, $w1:literal, $w0neg:expr, $w0:literal,
     $s:literal, $tm1d2:literal, $qnrt:literal, [$c11:literal, $c12:literal], [$f1:literal, $f2:literal, $f3:literal, $f4:literal, $f5:literal]) => {
        pub mod $m {
            use super::*;
            #[derive(MontConfig)]
            #[modulus = $p]
            #[generator = $pg]
            pub struct FqC;
            pub type Fq = Fp64<MontBackend<FqC, 1>>;
            #[derive(MontConfig)]
            #[modulus = $r]
            #[generator = $rg]
            pub struct FrC;
            pub type Fr = Fp64<MontBackend<FrC, 1>>;
            pub struct Fq3C;
            impl Fp3Config for Fq3C {
                type Fp = Fq;
                const NONRESIDUE: Fq = MontFp!($beta);
                const TWO_ADICITY: u32 = $s;
                const TRACE_MINUS_ONE_DIV_TWO: &'static [u64] = &[$tm1d2];
                const QUADRATIC_NONRESIDUE_TO_T: Fp3<Fq3C> = Fp3::new(MontFp!($qnrt), MontFp!("0"), MontFp!("0"));
                const FROBENIUS_COEFF_FP3_C1: &'static [Fq] = &[MontFp!("1"), MontFp!($c11), MontFp!($c12)];
                const FROBENIUS_COEFF_FP3_C2: &'static [Fq] = &[MontFp!("1"), MontFp!($c12), MontFp!($c11)];
            }
            pub type Fq3 = Fp3<Fq3C>;
            pub struct Fq6C;
            impl ark_ff::fields::fp6_2over3::Fp6Config for Fq6C {
                type Fp3Config = Fq3C;
                const NONRESIDUE: Fq3 = Fq3::new(MontFp!("0"), MontFp!("1"), MontFp!("0"));
                const FROBENIUS_COEFF_FP6_C1: &'static [Fq] = &[MontFp!("1"), MontFp!($f1), MontFp!($f2), MontFp!($f3), MontFp!($f4), MontFp!($f5)];
            }
            pub type Fq6 = ark_ff::fields::fp6_2over3::Fp6<Fq6C>;
            #[derive(Clone, Copy, PartialEq, Eq, Debug)]
            pub struct G1C;
            impl CurveConfig for G1C {
                type BaseField = Fq;
                type ScalarField = Fr;
                const COFACTOR: &'static [u64] = &[$h1];
                const COFACTOR_INV: Fr = MontFp!($h1inv);
            }
            impl SWCurveConfig for G1C {
                const COEFF_A: Fq = MontFp!($a);
                const COEFF_B: Fq = MontFp!($b);
                const GENERATOR: sw::Affine<Self> = sw::Affine::new_unchecked(MontFp!($gx), MontFp!($gy));
            }
            #[derive(Clone, Copy, PartialEq, Eq, Debug)]
            pub struct G2C;
            impl CurveConfig for G2C {
                type BaseField = Fq3;
                type ScalarField = Fr;
                const COFACTOR: &'static [u64] = &[$h2];
                const COFACTOR_INV: Fr = MontFp!($h2inv);
            }
            impl SWCurveConfig for G2C {
                const COEFF_A: Fq3 = Fq3::new(MontFp!("0"), MontFp!("0"), MontFp!($a));
                const COEFF_B: Fq3 = Fq3::new(MontFp!($bbeta), MontFp!("0"), MontFp!("0"));
                const GENERATOR: sw::Affine<Self> = sw::Affine::new_unchecked(
                    Fq3::new(MontFp!($qx0), MontFp!($qx1), MontFp!($qx2)), Fq3::new(MontFp!($qy0), MontFp!($qy1), MontFp!($qy2)));
            }
            pub struct Cfg;
            impl MNT6Config for Cfg {
                const TWIST: Fq3 = Fq3::new(MontFp!("0"), MontFp!("1"), MontFp!("0"));
                const TWIST_COEFF_A: Fq3 = Fq3::new(MontFp!("0"), MontFp!("0"), MontFp!($a));
                const ATE_LOOP_COUNT: &'static [i8] = &$naf;
                const ATE_IS_LOOP_COUNT_NEG: bool = $neg;
                const FINAL_EXPONENT_LAST_CHUNK_1: ark_ff::BigInt<1> = ark_ff::BigInt([$w1]);
                const FINAL_EXPONENT_LAST_CHUNK_W0_IS_NEG: bool = $w0neg;
                const FINAL_EXPONENT_LAST_CHUNK_ABS_OF_W0: ark_ff::BigInt<1> = ark_ff::BigInt([$w0]);
                type Fp = Fq;
                type Fr = Fr;
                type Fp3Config = Fq3C;
                type Fp6Config = Fq6C;
                type G1Config = G1C;
                type G2Config = G2C;
            }
            pub type Pairing = MNT6<Cfg>;
        }
    };
}
toy_mnt6!(mnt6a, "571", "2", "271", "3", "2", "2", "4", "8", "471", "14", ["521", "530", "207"], ["171", "346", "52"],
          2, "136", 686882, "221", [1, 0, 0, -1, 0, 1], false, 2, false, 59, 1, 46542352, "570", ["461", "109"], ["462", "461", "570", "109", "110"]);
toy_mnt6!(mnt6b, "829", "2", "397", "2", "2", "3", "6", "12", "195", "129", ["720", "26", "268"], ["567", "628", "559"],
          2, "199", 1434962, "325", [1, 0, 0, 1, 0, -1], false, 2, false, 71, 2, 71215348, "246", ["125", "703"], ["126", "125", "828", "703", "704"]);
