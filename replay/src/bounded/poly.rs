//! C07 / C08 / C17: the real ark-poly code on toy fields; every result is compared at ALL points of the field
//! (a polynomial of degree < p is determined by its p values) against an independent Horner oracle.
use super::{toy::*, Tally};
use crate::Rng;
use ark_ff::{FftField, Field, One, PrimeField, Zero};
use ark_poly::{
    univariate::{DenseOrSparsePolynomial, DensePolynomial, SparsePolynomial},
    DenseMultilinearExtension, DenseUVPolynomial, EvaluationDomain, Evaluations, GeneralEvaluationDomain, MixedRadixEvaluationDomain,
    MultilinearExtension, Polynomial, Radix2EvaluationDomain, SparseMultilinearExtension,
};

fn all<F: PrimeField>() -> Vec<F> {
    let p = F::MODULUS.as_ref()[0];
    (0..p).map(|i| F::from(i)).collect()
}
fn horner<F: Field>(c: &[F], x: F) -> F { c.iter().rev().fold(F::zero(), |acc, ci| acc * x + ci) }
fn sp_eval<F: Field>(terms: &[(usize, F)], x: F) -> F { terms.iter().map(|(d, c)| *c * x.pow([*d as u64])).sum() }
fn canonical<F: Field>(p: &DensePolynomial<F>) -> bool { p.coeffs.last().map_or(true, |c| !c.is_zero()) }
fn sp_canonical<F: Field>(p: &SparsePolynomial<F>) -> bool {
    p.iter().all(|(_, c)| !c.is_zero()) && p.windows(2).all(|w| w[0].0 < w[1].0)
}
/// all coefficient vectors of length <= maxlen over `alphabet`
fn vectors<F: Copy>(alphabet: &[F], maxlen: usize) -> Vec<Vec<F>> {
    let mut out = vec![vec![]];
    let mut cur: Vec<Vec<F>> = vec![vec![]];
    for _ in 0..maxlen {
        let mut next = vec![];
        for v in &cur { for a in alphabet { let mut w = v.clone(); w.push(*a); next.push(w); } }
        out.extend(next.iter().cloned());
        cur = next;
    }
    out
}

fn dense_sparse_ops<F: PrimeField + FftField>(t: &mut Tally, name: &str, alphabet: &[F], maxlen: usize) {
    let pts = all::<F>();
    let vs = vectors(alphabet, maxlen);
    let same = |t: &mut Tally, got: &DensePolynomial<F>, f: &dyn Fn(F) -> F, what: &dyn Fn() -> String| {
        t.check(canonical(got), || format!("{name}: {} not canonical: {:?}", what(), got.coeffs));
        let deg_ok = std::panic::catch_unwind(std::panic::AssertUnwindSafe(|| got.degree())).is_ok();
        t.check(deg_ok, || format!("{name}: degree() panics on {}", what()));
        t.check(pts.iter().all(|x| horner(&got.coeffs, *x) == f(*x)), || format!("{name}: {} has wrong values", what()));
    };
    for a in &vs {
        let pa = DensePolynomial::from_coefficients_vec(a.clone());
        t.check(canonical(&pa) && pts.iter().all(|x| pa.evaluate(x) == horner(a, *x)), || format!("{name}: from_coefficients_vec/evaluate {a:?}"));
        let sa: SparsePolynomial<F> = pa.clone().into();
        t.check(sp_canonical(&sa) && pts.iter().all(|x| sa.evaluate(x) == horner(a, *x)), || format!("{name}: dense->sparse {a:?}"));
        let back: DensePolynomial<F> = sa.clone().into();
        t.check(back == pa, || format!("{name}: sparse->dense {a:?}"));
        same(t, &(-pa.clone()), &|x| -horner(a, x), &|| format!("-{a:?}"));
        let sn = -sa.clone();
        t.check(sp_canonical(&sn) && pts.iter().all(|x| sn.evaluate(x) == -horner(a, *x)), || format!("{name}: -sparse {a:?}"));
        for k in alphabet.iter().take(3) {
            let sk = &sa * *k;
            t.check(sp_canonical(&sk) && pts.iter().all(|x| sk.evaluate(x) == *k * horner(a, *x)), || format!("{name}: sparse {a:?} * {k} = {:?}", sk.to_vec()));
        }
        for k in alphabet.iter().take(3) {
            same(t, &(&pa * *k), &|x| *k * horner(a, x), &|| format!("{a:?} * {k}"));
        }
        for b in &vs {
          let caught = std::panic::catch_unwind(std::panic::AssertUnwindSafe(|| {
            let mut tt = Tally::new();
            let t = &mut tt;
            let pb = DensePolynomial::from_coefficients_vec(b.clone());
            same(t, &(&pa + &pb), &|x| horner(a, x) + horner(b, x), &|| format!("{a:?} + {b:?}"));
            same(t, &(&pa - &pb), &|x| horner(a, x) - horner(b, x), &|| format!("{a:?} - {b:?}"));
            let mut c = pa.clone(); c += &pb;
            same(t, &c, &|x| horner(a, x) + horner(b, x), &|| format!("{a:?} += {b:?}"));
            let mut c = pa.clone(); c -= &pb;
            same(t, &c, &|x| horner(a, x) - horner(b, x), &|| format!("{a:?} -= {b:?}"));
            let mut c = pa.clone(); c += (alphabet[alphabet.len() - 1], &pb);
            same(t, &c, &|x| horner(a, x) + alphabet[alphabet.len() - 1] * horner(b, x), &|| format!("{a:?} += (k, {b:?})"));
            same(t, &pa.naive_mul(&pb), &|x| horner(a, x) * horner(b, x), &|| format!("naive_mul {a:?} {b:?}"));
            if F::TWO_ADICITY >= 3 {
                // `Mul` goes through an FFT domain and (as documented) needs a smooth enough field
                same(t, &(&pa * &pb), &|x| horner(a, x) * horner(b, x), &|| format!("{a:?} * {b:?}"));
            }
            // dense/sparse mixes
            let sb: SparsePolynomial<F> = pb.clone().into();
            same(t, &(&pa + &sb), &|x| horner(a, x) + horner(b, x), &|| format!("dense {a:?} + sparse {b:?}"));
            same(t, &(&pa - &sb), &|x| horner(a, x) - horner(b, x), &|| format!("dense {a:?} - sparse {b:?}"));
            let mut c = pa.clone(); c += &sb;
            same(t, &c, &|x| horner(a, x) + horner(b, x), &|| format!("dense {a:?} += sparse {b:?}"));
            let mut c = pa.clone(); c -= &sb;
            same(t, &c, &|x| horner(a, x) - horner(b, x), &|| format!("dense {a:?} -= sparse {b:?}"));
            let ss = &sa + &sb;
            t.check(sp_canonical(&ss) && pts.iter().all(|x| ss.evaluate(x) == horner(a, *x) + horner(b, *x)), || format!("{name}: sparse {a:?} + sparse {b:?} = {:?}", ss.to_vec()));
            let mut sc = sa.clone(); sc += &sb;
            t.check(sp_canonical(&sc) && pts.iter().all(|x| sc.evaluate(x) == horner(a, *x) + horner(b, *x)), || format!("{name}: sparse {a:?} += sparse {b:?} = {:?}", sc.to_vec()));
            let mut sc = sa.clone(); sc -= &sb;
            t.check(sp_canonical(&sc) && pts.iter().all(|x| sc.evaluate(x) == horner(a, *x) - horner(b, *x)), || format!("{name}: sparse {a:?} -= sparse {b:?} = {:?}", sc.to_vec()));
            for f in [F::zero(), alphabet[alphabet.len() - 1]] {
                let mut sc = sa.clone(); sc += (f, &sb);
                t.check(pts.iter().all(|x| sc.evaluate(x) == horner(a, *x) + f * horner(b, *x)), || format!("{name}: sparse {a:?} += ({f}, sparse {b:?}) = {:?}", sc.to_vec()));
                let mut dc = pa.clone(); dc += (f, &pb);
                same(t, &dc, &|x| horner(a, x) + f * horner(b, x), &|| format!("{a:?} += ({f}, {b:?})"));
            }
            let sm = sa.mul(&sb);
            t.check(sp_canonical(&sm) && pts.iter().all(|x| sm.evaluate(x) == horner(a, *x) * horner(b, *x)), || format!("{name}: sparse {a:?} * sparse {b:?} = {:?}", sm.to_vec()));
            if !pb.is_zero() {
                let r = std::panic::catch_unwind(std::panic::AssertUnwindSafe(|| DenseOrSparsePolynomial::from(&pa).divide_with_q_and_r(&DenseOrSparsePolynomial::from(&pb))));
                match r {
                    Ok(Some((q, r))) => {
                        t.check(canonical(&q) && canonical(&r) && (r.is_zero() || r.degree() < pb.degree())
                            && pts.iter().all(|x| horner(a, *x) == horner(&q.coeffs, *x) * horner(b, *x) + horner(&r.coeffs, *x)),
                            || format!("{name}: {a:?} / {b:?} = ({:?}, {:?})", q.coeffs, r.coeffs));
                        t.check(&pa / &pb == q, || format!("{name}: Div operator {a:?} / {b:?}"));
                    },
                    _ => t.check(false, || format!("{name}: divide_with_q_and_r({a:?}, {b:?}) failed/panicked")),
                }
            }
            tt
          }));
          match caught {
              Ok(tt) => { t.cases += tt.cases; for f in tt.fails { if t.fails.len() < 400 { t.fails.push(f); } } },
              Err(_) => t.check(false, || format!("{name}: PANIC in a dense/sparse operator on operands {a:?}, {b:?}: {}", crate::LAST_PANIC.lock().map(|g| g.clone()).unwrap_or_default().replace('\n', " "))),
          }
        }
    }
    // sparse polynomials from arbitrary term lists (duplicates, zeros, unsorted)
    let degs = [0usize, 1, 2, 5];
    for d1 in degs { for d2 in degs { for c1 in alphabet.iter().take(3) { for c2 in alphabet.iter().take(3) {
        if d1 == d2 { continue; } // like terms are documented as unsupported by the constructor
        let terms = vec![(d1, *c1), (d2, *c2)];
        let r = std::panic::catch_unwind(std::panic::AssertUnwindSafe(|| SparsePolynomial::from_coefficients_vec(terms.clone())));
        match r {
            Ok(sp) => {
                t.check(pts.iter().all(|x| sp.evaluate(x) == sp_eval(&terms, *x)), || format!("{name}: sparse from {terms:?} evaluates wrongly: {:?}", sp.to_vec()));
                let d: DensePolynomial<F> = sp.clone().into();
                t.check(canonical(&d) && pts.iter().all(|x| horner(&d.coeffs, *x) == sp_eval(&terms, *x)), || format!("{name}: sparse {terms:?} -> dense"));
            },
            Err(_) => t.check(false, || format!("{name}: SparsePolynomial::from_coefficients_vec({terms:?}) panicked")),
        }
    } } } }
}

fn vanishing_and_domain<F: PrimeField + FftField, D: EvaluationDomain<F>>(t: &mut Tally, name: &str, size: usize, rng: &mut Rng) {
    let pts = all::<F>();
    let Some(base) = D::new(size) else { return };
    t.check(base.size() >= size, || format!("{name}: domain smaller than requested {size}"));
    let n = base.size();
    let offsets: Vec<F> = vec![F::one(), F::GENERATOR, F::from(2u64), F::from(5u64)];
    for h in offsets {
        if h.is_zero() { continue; }
        let Some(dom) = base.get_coset(h) else { continue };
        // generator order, elements
        let g = dom.group_gen();
        let mut pw = F::one();
        for k in 0..n { if k > 0 { t.check(!pw.is_one(), || format!("{name}: generator order < size ({n})")); } pw *= g; }
        t.check(pw.is_one(), || format!("{name}: generator^size != 1"));
        let els: Vec<F> = dom.elements().collect();
        t.check(els.len() == n && (0..n).all(|i| els[i] == dom.element(i) && els[i] == h * g.pow([i as u64])), || format!("{name}: elements()/element(i) size {n} offset {h}"));
        // vanishing polynomial at every point of the field (also points of the domain)
        let hn = h.pow([n as u64]);
        for x in &pts {
            t.check(dom.evaluate_vanishing_polynomial(*x) == x.pow([n as u64]) - hn, || format!("{name}: vanishing poly at {x} size {n} offset {h}"));
        }
        let vp = dom.vanishing_polynomial();
        t.check(pts.iter().all(|x| vp.evaluate(x) == x.pow([n as u64]) - hn), || format!("{name}: vanishing_polynomial() size {n} offset {h}"));
        // Lagrange coefficients: sum_i L_i(tau) f(e_i) = f(tau) for the monomial basis, at every tau (also in the domain)
        if n <= pts.len() {
            for tau in &pts {
                let l = dom.evaluate_all_lagrange_coefficients(*tau);
                t.check(l.len() == n && (0..n).all(|d| (0..n).map(|i| l[i] * els[i].pow([d as u64])).sum::<F>() == tau.pow([d as u64])), || format!("{name}: lagrange coefficients at {tau} size {n} offset {h}"));
            }
        }
        // fft / ifft for every input length 0..=n (+ longer than the domain for evaluate_over_domain)
        // lengths 0..=n+2, and several domain sizes long (2n+1, 3n+1, 4n+3: folding with the coset offset)
        for len in (0..=(n + 2)).chain([2 * n + 1, 3 * n + 1, 4 * n + 3]) {
            for _ in 0..6 {
                let c: Vec<F> = (0..len).map(|_| { let r = rng.next(); if r % 5 == 0 { F::zero() } else { F::from(r >> 3) } }).collect();
                if len <= n {
                    let ev = dom.fft(&c);
                    t.check(ev.len() == n && (0..n).all(|i| ev[i] == horner(&c, els[i])), || format!("{name}: fft size {n} offset {h} input {c:?}"));
                    let back = dom.ifft(&ev);
                    t.check(back.len() == n && (0..n).all(|j| back[j] == if j < len { c[j] } else { F::zero() }), || format!("{name}: ifft(fft) size {n} offset {h} input {c:?}"));
                    let mut v = c.clone(); dom.fft_in_place(&mut v); t.check(v == ev, || format!("{name}: fft_in_place"));
                }
                let p = DensePolynomial::from_coefficients_vec(c.clone());
                let evs = p.evaluate_over_domain_by_ref(dom);
                t.check(evs.evals.len() == n && (0..n).all(|i| evs.evals[i] == horner(&c, els[i])), || format!("{name}: evaluate_over_domain_by_ref size {n} offset {h} input {c:?}"));
                let evv = p.clone().evaluate_over_domain(dom);
                t.check(evv.evals.len() == n && (0..n).all(|i| evv.evals[i] == horner(&c, els[i])), || format!("{name}: evaluate_over_domain (by value) size {n} offset {h} input {c:?}"));
                if len <= n {
                    let ip = evs.clone().interpolate();
                    t.check(ip == p, || format!("{name}: interpolate(evaluate_over_domain) size {n} offset {h} input {c:?}"));
                }
                // multiply / divide by the vanishing polynomial of this (coset) domain
                let m = p.mul_by_vanishing_poly(dom);
                t.check(pts.iter().all(|x| horner(&m.coeffs, *x) == horner(&c, *x) * (x.pow([n as u64]) - hn)), || format!("{name}: mul_by_vanishing_poly size {n} offset {h} input {c:?}"));
                let (q, r) = p.divide_by_vanishing_poly(dom);
                t.check(r.coeffs.len() <= n && pts.iter().all(|x| horner(&c, *x) == horner(&q.coeffs, *x) * (x.pow([n as u64]) - hn) + horner(&r.coeffs, *x)), || format!("{name}: divide_by_vanishing_poly size {n} offset {h} input {c:?}"));
            }
        }
    }
}

pub fn poly_all(t: &mut Tally, seed: u64) {
    let mut rng = Rng(seed.wrapping_mul(0x9E3779B97F4A7C15) | 1);
    dense_sparse_ops::<F7>(t, "F7", &[F7::zero(), F7::one(), F7::from(6u64)], 3);
    dense_sparse_ops::<F17>(t, "F17", &[F17::zero(), F17::one(), F17::from(16u64), F17::from(5u64)], 2);
    for size in [1usize, 2, 4, 8] {
        vanishing_and_domain::<F17, Radix2EvaluationDomain<F17>>(t, "F17/radix2(vanishing,div)", size, &mut rng);
    }
}

pub fn fft_all(t: &mut Tally, seed: u64) {
    let mut rng = Rng(seed.wrapping_mul(0x9E3779B97F4A7C15) | 1);
    for size in [1usize, 2, 3, 4, 5, 8, 9, 16] {
        vanishing_and_domain::<F17, Radix2EvaluationDomain<F17>>(t, "F17/radix2", size, &mut rng);
        vanishing_and_domain::<F17, GeneralEvaluationDomain<F17>>(t, "F17/general", size, &mut rng);
    }
    for size in [1usize, 2, 7, 8, 16, 17, 32] {
        vanishing_and_domain::<F97, Radix2EvaluationDomain<F97>>(t, "F97/radix2", size, &mut rng);
    }
    // construction fails only when the field has no such subgroup
    t.check(Radix2EvaluationDomain::<F17>::new(17).is_none() && Radix2EvaluationDomain::<F17>::new(16).is_some(), || "F17: radix-2 domain of size 32 must not exist".into());
    t.check(Radix2EvaluationDomain::<F97>::new(33).is_none() && Radix2EvaluationDomain::<F97>::new(32).is_some(), || "F97: radix-2 domain of size 64 must not exist".into());
    // mixed radix: F_37 has 36 = 2^2 * 3^2
    for size in [1usize, 2, 3, 4, 5, 6, 9, 10, 12, 13, 18, 19, 36] {
        vanishing_and_domain::<F37, MixedRadixEvaluationDomain<F37>>(t, "F37/mixed", size, &mut rng);
        vanishing_and_domain::<F37, GeneralEvaluationDomain<F37>>(t, "F37/general", size, &mut rng);
    }
    t.check(MixedRadixEvaluationDomain::<F37>::new(37).is_none(), || "F37: no domain of size >= 37".into());
}

/// hypercube-sum definition of a multilinear extension
fn mle_def<F: Field>(table: &[F], point: &[F]) -> F {
    let nv = point.len();
    (0..(1usize << nv)).map(|b| {
        let mut w = table[b];
        for (i, r) in point.iter().enumerate() { w *= if (b >> i) & 1 == 1 { *r } else { F::one() - r }; }
        w
    }).sum()
}
pub fn mle_all(t: &mut Tally, seed: u64) {
    let mut rng = Rng(seed.wrapping_mul(0x9E3779B97F4A7C15) | 1);
    let pts = all::<F7>();
    for nv in 0..4usize {
        for _ in 0..40 {
            let table: Vec<F7> = (0..(1usize << nv)).map(|_| F7::from(rng.next() % 7)).collect();
            let m = DenseMultilinearExtension::from_evaluations_vec(nv, table.clone());
            let sparse_terms: Vec<(usize, F7)> = table.iter().cloned().enumerate().filter(|(_, v)| !v.is_zero()).collect();
            let sm = SparseMultilinearExtension::from_evaluations(nv, &sparse_terms);
            // every point of F_7^nv (Boolean and non-Boolean)
            let total = 7usize.pow(nv as u32);
            for code in 0..total {
                let mut k = code;
                let point: Vec<F7> = (0..nv).map(|_| { let v = pts[k % 7]; k /= 7; v }).collect();
                let e = mle_def(&table, &point);
                t.check(m.evaluate(&point) == e, || format!("dense MLE nv={nv} table {table:?} at {point:?}"));
                t.check(sm.evaluate(&point) == e, || format!("sparse MLE nv={nv} table {table:?} at {point:?}"));
                // fix a prefix of the variables
                for kfix in 0..=nv {
                    let f = m.fix_variables(&point[..kfix]);
                    let sf = sm.fix_variables(&point[..kfix]);
                    t.check(f.num_vars == nv - kfix && f.evaluate(&point[kfix..].to_vec()) == e, || format!("dense fix_variables nv={nv} k={kfix} table {table:?} point {point:?}"));
                    t.check(sf.num_vars == nv - kfix && sf.evaluate(&point[kfix..].to_vec()) == e, || format!("sparse fix_variables nv={nv} k={kfix} table {table:?} point {point:?}"));
                }
            }
            // relabel windows, arithmetic
            for a in 0..nv { for b in 0..nv { for k in 0..=nv {
                if a + k > nv || b + k > nv || (a < b && a + k > b) || (b < a && b + k > a) { continue; }
                let r = m.relabel(a, b, k);
                let sr = match std::panic::catch_unwind(std::panic::AssertUnwindSafe(|| sm.relabel(a, b, k))) {
                    Ok(x) => x,
                    Err(_) => { t.check(false, || format!("sparse relabel({a},{b},{k}) panics for nv={nv} (dense accepts the window)")); continue; },
                };
                let swap = |x: usize| -> usize {
                    let mask = (1usize << k) - 1;
                    let wa = (x >> a) & mask; let wb = (x >> b) & mask;
                    let cleared = x & !(mask << a) & !(mask << b);
                    if a == b { x } else { cleared | (wa << b) | (wb << a) }
                };
                t.check((0..(1usize << nv)).all(|x| r.evaluations[x] == table[swap(x)]), || format!("dense relabel({a},{b},{k}) nv={nv} table {table:?}"));
                t.check(sr.to_evaluations() == r.to_evaluations(), || format!("sparse relabel({a},{b},{k}) nv={nv} table {table:?}"));
            } } }
            let table2: Vec<F7> = (0..(1usize << nv)).map(|_| F7::from(rng.next() % 7)).collect();
            let m2 = DenseMultilinearExtension::from_evaluations_vec(nv, table2.clone());
            t.check((&m + &m2).evaluations == table.iter().zip(&table2).map(|(x, y)| *x + y).collect::<Vec<_>>(), || "dense MLE add".into());
            t.check((&m - &m2).evaluations == table.iter().zip(&table2).map(|(x, y)| *x - y).collect::<Vec<_>>(), || "dense MLE sub".into());
            t.check((-m.clone()).evaluations == table.iter().map(|x| -*x).collect::<Vec<_>>(), || "dense MLE neg".into());
            t.check((m.clone() * F7::from(3u64)).evaluations == table.iter().map(|x| *x * F7::from(3u64)).collect::<Vec<_>>(), || "dense MLE scale".into());
            let cat = DenseMultilinearExtension::concat([&m, &m2]);
            t.check(cat.num_vars == nv + 1 && cat.evaluations[..table.len()] == table[..] && cat.evaluations[table.len()..] == table2[..], || format!("dense MLE concat nv={nv}"));
        }
    }
}

/// larger inputs (so that the `parallel` feature's work splitting is actually exercised): F_65537, two-adicity 16
pub fn par_big(t: &mut Tally, seed: u64) {
    let mut rng = Rng(seed.wrapping_mul(0x9E3779B97F4A7C15) | 1);
    let rnd = |rng: &mut Rng| F65537::from(rng.next() % 65537);
    for log in [6usize, 9, 11] {
        let n = 1usize << log;
        for offset in [F65537::one(), F65537::from(3u64)] {
            let dom = Radix2EvaluationDomain::<F65537>::new(n).unwrap().get_coset(offset).unwrap();
            for len in [n, n - 1, n / 2 + 1, n / 4, 3] {
                let c: Vec<F65537> = (0..len).map(|_| rnd(&mut rng)).collect();
                let ev = dom.fft(&c);
                let els: Vec<F65537> = dom.elements().collect();
                t.check(ev.len() == n && (0..n).all(|i| ev[i] == horner(&c, els[i])), || format!("F65537: fft size {n} offset {offset} len {len}"));
                let back = dom.ifft(&ev);
                t.check((0..n).all(|j| back[j] == if j < len { c[j] } else { F65537::zero() }), || format!("F65537: ifft size {n} offset {offset} len {len}"));
                let l = dom.evaluate_all_lagrange_coefficients(F65537::from(12345u64));
                t.check((0..4usize).all(|d| (0..n).map(|i| l[i] * els[i].pow([d as u64])).sum::<F65537>() == F65537::from(12345u64).pow([d as u64])), || format!("F65537: lagrange size {n}"));
            }
        }
        // polynomial arithmetic through the FFT path, evaluation over a domain for operands longer than the domain
        let a: Vec<F65537> = (0..(n / 2 + 3)).map(|_| rnd(&mut rng)).collect();
        let b: Vec<F65537> = (0..(n / 3 + 1)).map(|_| rnd(&mut rng)).collect();
        let (pa, pb) = (DensePolynomial::from_coefficients_vec(a.clone()), DensePolynomial::from_coefficients_vec(b.clone()));
        let prod = &pa * &pb;
        t.check(prod == pa.naive_mul(&pb), || format!("F65537: FFT mul vs naive mul, sizes {} {}", a.len(), b.len()));
        for x in [F65537::from(7u64), F65537::from(65536u64)] {
            t.check(pa.evaluate(&x) == horner(&a, x), || format!("F65537: evaluate len {}", a.len()));
        }
        let dom = Radix2EvaluationDomain::<F65537>::new(n / 4).unwrap().get_coset(F65537::from(5u64)).unwrap();
        let evs = pa.evaluate_over_domain_by_ref(dom);
        let els: Vec<F65537> = dom.elements().collect();
        t.check((0..els.len()).all(|i| evs.evals[i] == horner(&a, els[i])), || format!("F65537: evaluate_over_domain (poly longer than domain) size {}", n / 4));
    }
    // large domains (the parallel butterflies and power distribution only split work above ~2^10 elements per thread):
    // 2^12 .. 2^14 with and without a coset offset, full-length and short inputs; values at 48 positions spread over the
    // domain against Horner, and the full inverse transform
    for log in [12usize, 13, 14] {
        let n = 1usize << log;
        for offset in [F65537::one(), F65537::from(3u64)] {
            let dom = Radix2EvaluationDomain::<F65537>::new(n).unwrap().get_coset(offset).unwrap();
            for len in [n, 3000, n / 2 + 1] {
                let c: Vec<F65537> = (0..len).map(|_| rnd(&mut rng)).collect();
                let ev = dom.fft(&c);
                let mut ok = ev.len() == n;
                for s in 0..48usize {
                    let i = (s * 2731 + 17 * s * s) % n;
                    ok &= ev[i] == horner(&c, dom.element(i));
                }
                t.check(ok, || format!("F65537: fft size {n} offset {offset} len {len} (sampled positions)"));
                let back = dom.ifft(&ev);
                t.check(back.len() == n && (0..n).all(|j| back[j] == if j < len { c[j] } else { F65537::zero() }), || format!("F65537: ifft(fft) size {n} offset {offset} len {len}"));
            }
        }
    }
    // batch inversion of long vectors with zeros sprinkled in
    for len in [1usize, 2, 17, 64, 1000] {
        let v: Vec<F65537> = (0..len).map(|i| if i % 13 == 5 { F65537::zero() } else { rnd(&mut rng) }).collect();
        let mut w = v.clone();
        let c = F65537::from(9u64);
        ark_ff::batch_inversion_and_mul(&mut w, &c);
        t.check(v.iter().zip(&w).all(|(o, r)| if o.is_zero() { r.is_zero() } else { *r * *o == c }), || format!("F65537: batch_inversion_and_mul len {len}"));
    }
    // MLE with 10 variables
    let nv = 10;
    let table: Vec<F7> = (0..(1usize << nv)).map(|_| F7::from(rng.next() % 7)).collect();
    let m = DenseMultilinearExtension::from_evaluations_vec(nv, table.clone());
    let point: Vec<F7> = (0..nv).map(|_| F7::from(rng.next() % 7)).collect();
    t.check(m.evaluate(&point) == mle_def(&table, &point), || "dense MLE nv=10".into());
    t.check(m.fix_variables(&point[..4]).evaluate(&point[4..].to_vec()) == mle_def(&table, &point), || "dense MLE fix_variables nv=10".into());
}
