//! Bounded stand-ins: EXHAUSTIVE native enumeration of the real code on toy configurations (stated bound per group).
//! Used where neither Verus (iterator/closure code) nor Kani (Montgomery defaults blow up goto-instrument; Vec-heavy code
//! is too slow for CBMC) reaches the function.  Always labelled bounded; never counted as proved.
//!   replay bounded <group> <seed>   prints `CASES <n>` and, for each failure, `FAIL <description>`; exit 1 on failure.
pub mod toy;
mod field;
mod poly;
mod curve;
mod ser;
mod pairing;

pub struct Tally {
    pub cases: u64,
    pub fails: Vec<String>,
}
impl Tally {
    pub fn new() -> Self { Tally { cases: 0, fails: vec![] } }
    pub fn check(&mut self, ok: bool, desc: impl FnOnce() -> String) {
        self.cases += 1;
        if !ok && self.fails.len() < 400 {
            self.fails.push(desc());
        }
    }
    /// run a closure that may panic; a panic is a failure
    pub fn no_panic<R>(&mut self, f: impl FnOnce() -> R + std::panic::UnwindSafe, desc: impl FnOnce() -> String) -> Option<R> {
        match std::panic::catch_unwind(f) {
            Ok(r) => Some(r),
            Err(_) => {
                self.cases += 1;
                if self.fails.len() < 400 {
                    self.fails.push(format!("PANIC {}", desc()));
                }
                None
            },
        }
    }
}

/// first failing case of a group (used as witness search for obligations on derive-macro output: the toy fields of the
/// `field` group are real `#[derive(MontConfig)]` fields, i.e. they run the generator of the tree under test)
pub fn first_fail(group: &str, seed: u64) -> Option<String> {
    let mut t = Tally::new();
    match group {
        "field" => field::field_layer(&mut t, seed),
        "sqrt" => { field::sqrt_all(&mut t); curve::recover(&mut t); },
        _ => return None,
    }
    t.fails.into_iter().next()
}

pub fn run(group: &str, seed: u64) -> i32 {
    let mut t = Tally::new();
    match group {
        "field" => field::field_layer(&mut t, seed),
        "sqrt" => { field::sqrt_all(&mut t); curve::recover(&mut t); },
        "ext" => field::ext_all(&mut t, seed),
        "poly" => poly::poly_all(&mut t, seed),
        "fft" => poly::fft_all(&mut t, seed),
        "mle" => poly::mle_all(&mut t, seed),
        "par_big" => poly::par_big(&mut t, seed),
        "curve_group" => curve::group_law(&mut t),
        "curve_scalar" => curve::scalar_mul(&mut t, seed),
        "curve_msm" => curve::msm(&mut t, seed),
        "curve_ser" => { curve::serialization(&mut t); pairing::target_serialization(&mut t, seed); },
        "ser_impls" => ser::ser_impls(&mut t, seed),
        "toy_pairing" => pairing::toy_pairings(&mut t),
        "bigint" => {
            // BigInt<N>, N = 1..4: boundary-limb operands (0, 1, 2^63 +- 1, 2^64 - 1, ...) in the extreme limbs, all pairs,
            // shift amounts 0, 1, 63, 64, 65, 127..129, 64N-1, 64N, 64N+1, 100000; oracle = num-bigint
            let mut rng = crate::Rng(seed.wrapping_mul(0x9E3779B97F4A7C15) | 1);
            for u in ["BigInt::add_with_carry", "BigInt::sub_with_borrow", "BigInt::mul2", "BigInt::div2", "BigInt::mul", "BigInt::shl_assign", "BigInt::shr_assign",
                      "BigInt::cmp", "BigInt::is_odd", "BigInt::get_bit", "BigInt::num_bits", "BigInt::not", "BigInt::is_zero", "BigInt::find_wnaf", "BigInt::find_naf"] {
                if let Some(w) = crate::bigint_units::search(u, &mut rng) {
                    t.check(false, || format!("{u}: {w}"));
                }
            }
            t.cases += crate::bigint_units::CASES.load(std::sync::atomic::Ordering::Relaxed);
        },
        _ => {
            println!("unknown bounded group {group}");
            return 2;
        },
    }
    println!("CASES {}", t.cases);
    for f in &t.fails {
        println!("FAIL {f}");
    }
    if t.fails.is_empty() { 0 } else { 1 }
}
