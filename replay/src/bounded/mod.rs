//! Bounded stand-ins: EXHAUSTIVE native enumeration of the real code on toy configurations (stated bound per group).
//! Used where neither Verus (iterator/closure code) nor Kani (Montgomery defaults blow up goto-instrument; Vec-heavy code
//! is too slow for CBMC) reaches the function.  Always labelled bounded; never counted as proved.
//!   replay bounded <group> <seed>   prints `CASES <n>` and, for each failure, `FAIL <description>`; exit 1 on failure.
pub mod toy;
mod field;
mod poly;
mod curve;

pub struct Tally {
    pub cases: u64,
    pub fails: Vec<String>,
}
impl Tally {
    pub fn new() -> Self { Tally { cases: 0, fails: vec![] } }
    pub fn check(&mut self, ok: bool, desc: impl FnOnce() -> String) {
        self.cases += 1;
        if !ok && self.fails.len() < 400 {
            self.fails.push(desc());
        }
    }
    /// run a closure that may panic; a panic is a failure
    pub fn no_panic<R>(&mut self, f: impl FnOnce() -> R + std::panic::UnwindSafe, desc: impl FnOnce() -> String) -> Option<R> {
        match std::panic::catch_unwind(f) {
            Ok(r) => Some(r),
            Err(_) => {
                self.cases += 1;
                if self.fails.len() < 400 {
                    self.fails.push(format!("PANIC {}", desc()));
                }
                None
            },
        }
    }
}

pub fn run(group: &str, seed: u64) -> i32 {
    let mut t = Tally::new();
    match group {
        "field" => field::field_layer(&mut t, seed),
        "sqrt" => field::sqrt_all(&mut t),
        "ext" => field::ext_all(&mut t, seed),
        "poly" => poly::poly_all(&mut t, seed),
        "fft" => poly::fft_all(&mut t, seed),
        "mle" => poly::mle_all(&mut t, seed),
        "curve_group" => curve::group_law(&mut t),
        "curve_scalar" => curve::scalar_mul(&mut t, seed),
        "curve_msm" => curve::msm(&mut t, seed),
        "curve_ser" => curve::serialization(&mut t),
        _ => {
            println!("unknown bounded group {group}");
            return 2;
        },
    }
    println!("CASES {}", t.cases);
    for f in &t.fails {
        println!("FAIL {f}");
    }
    if t.fails.is_empty() { 0 } else { 1 }
}
