//! Bounded stand-in for C06 (EXHAUSTIVE on toy pairing-friendly curves instantiating the MNT4 and MNT6 models of ark-ec):
//! for EVERY a, b in [0, r): e(aP, bQ) = e(P, Q)^(ab) with the power taken naively in the target field; e(P, Q) != 1 and has
//! order exactly r; additivity in both arguments on all pairs of multiples; multi-pairings of every length 0..=5 (several
//! chunk sizes) = product; prepared = unprepared; Miller loop + final exponentiation = pairing.  Identity arguments are
//! exercised separately and reported (the MNT4 model has an open finding there).
use super::toy::{mnt4a, mnt4b, mnt6a, mnt6b};
use super::Tally;
use ark_ec::{pairing::{Pairing, PairingOutput}, AffineRepr, CurveGroup, PrimeGroup};
use ark_ff::{Field, One, PrimeField, Zero};

fn exhaustive<P: Pairing>(t: &mut Tally, name: &str, r: u64) {
    let (g1, g2) = (P::G1::generator(), P::G2::generator());
    // all multiples by repeated addition (group law: C03)
    let mut ps: Vec<P::G1> = vec![P::G1::zero()];
    let mut qs: Vec<P::G2> = vec![P::G2::zero()];
    for _ in 1..r { ps.push(*ps.last().unwrap() + g1); qs.push(*qs.last().unwrap() + g2); }
    t.check((*ps.last().unwrap() + g1).is_zero() && (*qs.last().unwrap() + g2).is_zero() && !g1.is_zero() && !g2.is_zero(), || format!("{name}: generators do not have order r"));
    let pa: Vec<P::G1Affine> = ps.iter().map(|p| p.into_affine()).collect();
    let qa: Vec<P::G2Affine> = qs.iter().map(|q| q.into_affine()).collect();
    let e = P::pairing(pa[1], qa[1]);
    t.check(!e.0.is_one(), || format!("{name}: e(P, Q) = 1 on the generators (degenerate)"));
    // powers of e
    let mut pw: Vec<P::TargetField> = vec![P::TargetField::one()];
    for _ in 1..r { pw.push(*pw.last().unwrap() * e.0); }
    t.check((*pw.last().unwrap() * e.0).is_one() && pw[1..].iter().all(|x| !x.is_one()), || format!("{name}: e(P, Q) does not have order r"));
    // bilinearity on EVERY pair of non-identity multiples
    let mut bad = None;
    let mut table: Vec<Vec<P::TargetField>> = vec![];
    for a in 1..r as usize {
        let mut row = Vec::with_capacity(r as usize);
        row.push(P::TargetField::one());
        for b in 1..r as usize {
            let v = P::pairing(pa[a], qa[b]).0;
            t.cases += 1;
            if v != pw[(a * b) % r as usize] && bad.is_none() { bad = Some((a, b)); }
            row.push(v);
        }
        table.push(row);
    }
    if let Some((a, b)) = bad { t.check(false, || format!("{name}: e(aP, bQ) != e(P, Q)^(ab) for a = {a}, b = {b}")); }
    // prepared inputs, Miller loop + final exponentiation, projective inputs: on a diagonal band of pairs
    for a in 1..r as usize {
        for b in [a, (a * 7 + 3) % (r as usize - 1) + 1] {
            let v = table[a - 1][b];
            let prep = P::pairing(P::G1Prepared::from(pa[a]), P::G2Prepared::from(qa[b]));
            let proj = P::pairing(ps[a], qs[b]);
            let fe = P::final_exponentiation(P::miller_loop(pa[a], qa[b]));
            t.check(prep.0 == v && proj.0 == v && fe == Some(PairingOutput(v)), || format!("{name}: prepared / projective / miller+final_exp disagree with pairing at a = {a}, b = {b}"));
        }
    }
    // multi-pairings: every length 0..=5, two families of index patterns
    for len in 0..=5usize {
        for s in 1..(r as usize).min(60) {
            let ia: Vec<usize> = (0..len).map(|k| (s * (k + 1) * 3) % (r as usize - 1) + 1).collect();
            let ib: Vec<usize> = (0..len).map(|k| (s * 5 + k * 11) % (r as usize - 1) + 1).collect();
            let expect = ia.iter().zip(&ib).fold(P::TargetField::one(), |acc, (a, b)| acc * table[a - 1][*b]);
            let got = P::multi_pairing(ia.iter().map(|a| pa[*a]), ib.iter().map(|b| qa[*b]));
            t.check(got.0 == expect, || format!("{name}: multi_pairing of length {len} != product of pairings (pattern {s})"));
        }
    }
    // target group as a PrimeGroup
    let eo = PairingOutput::<P>(e.0);
    for k in 0..(2 * r + 3) {
        t.check(eo.mul_bigint([k]).0 == pw[(k % r) as usize], || format!("{name}: PairingOutput::mul_bigint([{k}])"));
    }
    for len in 0..10usize {
        for bits in 0..(1u64 << len) {
            let be: Vec<bool> = (0..len).rev().map(|i| (bits >> i) & 1 == 1).collect();
            t.check(eo.mul_bits_be(be.iter().cloned()).0 == pw[(bits % r) as usize], || format!("{name}: PairingOutput::mul_bits_be({be:?})"));
        }
    }
    // identity arguments (G1 identity must give the identity; the G2 identity is the subject of a known finding)
    t.check(P::pairing(pa[0], qa[1]).0.is_one(), || format!("{name}: pairing with the G1 identity is not the identity"));
    let id2 = std::panic::catch_unwind(std::panic::AssertUnwindSafe(|| P::pairing(pa[1], qa[0]).0.is_one()));
    match id2 {
        Ok(ok) => t.check(ok, || format!("{name}: pairing with the G2 identity is not the identity")),
        Err(_) => t.check(false, || format!("PANIC {name}: G2 identity argument panics")),
    }
}

pub fn toy_pairings(t: &mut Tally) {
    exhaustive::<mnt4a::Pairing>(t, "toy MNT4-A", 257);
    exhaustive::<mnt4b::Pairing>(t, "toy MNT4-B", 313);
    exhaustive::<mnt6a::Pairing>(t, "toy MNT6-A", 271);
    exhaustive::<mnt6b::Pairing>(t, "toy MNT6-B", 397);
}

/// C10 for the target group: `PairingOutput` read with Validate::Yes is accepted exactly when the element lies in the order-r
/// subgroup of the target field (oracle: r-fold naive product), Validate::No returns the field element as is, the encoding
/// is that of the field element, truncations are rejected without panic, and a vector with one bad element is rejected.
fn target_ser<P: Pairing>(t: &mut Tally, name: &str, r: u64, seed: u64) {
    use ark_serialize::{CanonicalDeserialize, CanonicalSerialize, Compress, Validate, Valid};
    let e = P::pairing(P::G1::generator().into_affine(), P::G2::generator().into_affine()).0;
    let one = P::TargetField::one();
    let mut elems: Vec<P::TargetField> = vec![P::TargetField::zero(), one, -one, one + one, e, -e, e + one, e * e, e.inverse().unwrap()];
    // every member of the order-r group and its negative (order 2r)
    let mut pw = one;
    for _ in 0..r { pw *= e; elems.push(pw); elems.push(-pw); }
    // seeded field elements
    let mut rng = crate::Rng(seed.wrapping_mul(0x9E3779B97F4A7C15) | 1);
    let d = P::TargetField::extension_degree() as usize;
    for _ in 0..1500 {
        let cs: Vec<<P::TargetField as Field>::BasePrimeField> = (0..d).map(|_| <P::TargetField as Field>::BasePrimeField::from(rng.next())).collect();
        let f = P::TargetField::from_base_prime_field_elems(cs).unwrap();
        elems.push(f);
        // an element of the cyclotomic-style subgroup that is usually not of order r: f^r has order dividing (q^k - 1)/r
        if !f.is_zero() { elems.push(f.pow([r])); }
    }
    let in_group = |f: &P::TargetField| -> bool {
        if f.is_zero() { return false; }
        let mut acc = one;
        for _ in 0..r { acc *= f; }
        acc.is_one()
    };
    let mut members = 0u64;
    for f in &elems {
        let ok = in_group(f);
        if ok { members += 1; }
        t.check(PairingOutput::<P>(*f).check().is_ok() == ok, || format!("{name}: PairingOutput::check() of {f} (in the order-{r} group: {ok})"));
        for c in [Compress::Yes, Compress::No] {
            let mut fb = vec![];
            f.serialize_with_mode(&mut fb, c).unwrap();
            let mut pb = vec![];
            let po = PairingOutput::<P>(*f);
            t.check(po.serialize_with_mode(&mut pb, c).is_ok() && pb == fb && po.serialized_size(c) == fb.len(), || format!("{name}: PairingOutput encoding / size differs from the target-field element's"));
            let yes = PairingOutput::<P>::deserialize_with_mode(&fb[..], c, Validate::Yes);
            t.check(yes.is_ok() == ok && yes.as_ref().map_or(true, |g| g.0 == *f), || format!("{name}: checked read of target-field element {f} as PairingOutput (in the order-{r} group: {ok}) -> {:?}", yes.as_ref().map(|g| g.0)));
            let no = PairingOutput::<P>::deserialize_with_mode(&fb[..], c, Validate::No);
            t.check(matches!(&no, Ok(g) if g.0 == *f), || format!("{name}: unchecked read of target-field element {f} as PairingOutput fails"));
            // inside containers
            let mut vb = vec![];
            vec![PairingOutput::<P>(e), po, PairingOutput::<P>(one)].serialize_with_mode(&mut vb, c).unwrap();
            let vr = Vec::<PairingOutput<P>>::deserialize_with_mode(&vb[..], c, Validate::Yes);
            t.check(vr.is_ok() == ok, || format!("{name}: checked read of Vec[e, {f}, 1] of PairingOutput (middle in group: {ok})"));
            let mut ob = vec![];
            Some(po).serialize_with_mode(&mut ob, c).unwrap();
            let or = Option::<PairingOutput<P>>::deserialize_with_mode(&ob[..], c, Validate::Yes);
            t.check(or.is_ok() == ok, || format!("{name}: checked read of Some({f}) of PairingOutput (in group: {ok})"));
        }
    }
    t.check(members >= r, || format!("{name}: fewer than r group members among the samples (vacuous)"));
    // truncations of a valid encoding: Err, no panic
    for c in [Compress::Yes, Compress::No] {
        let mut fb = vec![];
        e.serialize_with_mode(&mut fb, c).unwrap();
        for k in 0..fb.len() {
            let pre = fb[..k].to_vec();
            for v in [Validate::Yes, Validate::No] {
                let p2 = pre.clone();
                let out = t.no_panic(std::panic::AssertUnwindSafe(move || PairingOutput::<P>::deserialize_with_mode(&p2[..], c, v).is_err()), || format!("{name}: PairingOutput truncated to {k} bytes"));
                if let Some(is_err) = out { t.check(is_err, || format!("{name}: PairingOutput truncated to {k} bytes accepted")); }
            }
        }
    }
}

pub fn target_serialization(t: &mut Tally, seed: u64) {
    target_ser::<mnt4a::Pairing>(t, "toy MNT4-A", 257, seed);
    target_ser::<mnt4b::Pairing>(t, "toy MNT4-B", 313, seed);
    target_ser::<mnt6a::Pairing>(t, "toy MNT6-A", 271, seed);
    target_ser::<mnt6b::Pairing>(t, "toy MNT6-B", 397, seed);
}
