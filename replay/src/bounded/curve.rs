//! C03 (batch / whole-operation), C04, C05, C09/C10 (point codecs), C12 (default subgroup test) on toy curves:
//! every point of the curve, every ordered pair, several projective rescalings; oracle = textbook affine law.
use super::{toy::*, Tally};
use crate::Rng;
use ark_ec::{
    models::{short_weierstrass as sw, twisted_edwards as te},
    scalar_mul::{variable_base::{ChunkedPippenger, HashMapPippenger, VariableBaseMSM}, wnaf::WnafContext, BatchMulPreprocessing, ScalarMul},
    AffineRepr, CurveGroup, PrimeGroup,
};
use ark_ff::{AdditiveGroup, BigInteger, Field, One, PrimeField, Zero};
use ark_serialize::{CanonicalDeserialize, CanonicalSerialize, Compress, Validate};

fn all<F: PrimeField>() -> Vec<F> {
    let p = F::MODULUS.as_ref()[0];
    (0..p).map(|i| F::from(i)).collect()
}

// ------------------------------------------------------------------ short Weierstrass oracle
type SwPt<F> = Option<(F, F)>;
fn sw_add<F: Field>(p: SwPt<F>, q: SwPt<F>, a: F) -> SwPt<F> {
    match (p, q) {
        (None, q) => q,
        (p, None) => p,
        (Some((x1, y1)), Some((x2, y2))) => {
            if x1 == x2 && (y1 + y2).is_zero() { return None; }
            let l = if x1 == x2 && y1 == y2 { (x1.square() * F::from(3u64) + a) * (y1.double()).inverse().unwrap() } else { (y2 - y1) * (x2 - x1).inverse().unwrap() };
            let x3 = l.square() - x1 - x2;
            Some((x3, l * (x1 - x3) - y1))
        },
    }
}
fn sw_mul<F: Field>(mut k: u128, p: SwPt<F>, a: F) -> SwPt<F> {
    let mut r = None;
    let mut b = p;
    while k > 0 { if k & 1 == 1 { r = sw_add(r, b, a); } b = sw_add(b, b, a); k >>= 1; }
    r
}
fn sw_to<P: sw::SWCurveConfig>(p: &sw::Projective<P>) -> SwPt<P::BaseField> { p.into_affine().xy() }
fn sw_aff<P: sw::SWCurveConfig>(p: SwPt<P::BaseField>) -> sw::Affine<P> { match p { None => sw::Affine::identity(), Some((x, y)) => sw::Affine::new_unchecked(x, y) } }
fn sw_points<P: sw::SWCurveConfig>() -> Vec<SwPt<P::BaseField>> where P::BaseField: PrimeField {
    let f = all::<P::BaseField>();
    let mut v = vec![None];
    for x in &f { for y in &f { if sw::Affine::<P>::new_unchecked(*x, *y).is_on_curve() { v.push(Some((*x, *y))); } } }
    v
}
fn sw_reps<P: sw::SWCurveConfig>(p: SwPt<P::BaseField>) -> Vec<sw::Projective<P>> where P::BaseField: PrimeField {
    match p {
        None => vec![sw::Projective::zero(), sw::Projective::new_unchecked(P::BaseField::from(5u64), P::BaseField::from(3u64), P::BaseField::zero())],
        Some((x, y)) => [1u64, 2, 5].iter().map(|l| { let l = P::BaseField::from(*l); sw::Projective::new_unchecked(x * l.square(), y * l.square() * l, l) }).collect(),
    }
}

fn sw_group<P: sw::SWCurveConfig>(t: &mut Tally, name: &str) where P::BaseField: PrimeField {
    let a = P::COEFF_A;
    let pts = sw_points::<P>();
    let order = pts.len() as u128;
    for p in &pts {
        let ap = sw_aff::<P>(*p);
        t.check(ap.is_on_curve(), || format!("{name}: is_on_curve({p:?})"));
        t.check(sw_mul(order, *p, a).is_none(), || format!("{name}: oracle sanity"));
        for (ri, pr) in sw_reps::<P>(*p).iter().enumerate() {
            t.check(sw_to(pr) == *p, || format!("{name}: into_affine of rep {ri} of {p:?}"));
            t.check(sw_to(&pr.double()) == sw_add(*p, *p, a), || format!("{name}: double rep {ri} of {p:?}"));
            t.check(sw_to(&-*pr) == p.map(|(x, y)| (x, -y)), || format!("{name}: neg rep {ri} of {p:?}"));
            t.check(*pr == sw_reps::<P>(*p)[0] && pr.is_zero() == p.is_none(), || format!("{name}: eq/is_zero across reps of {p:?}"));
            t.check(*pr == ap && sw::Projective::from(ap) == *pr, || format!("{name}: projective == affine of {p:?}"));
            t.check(hash_of(pr) == hash_of(&sw_reps::<P>(*p)[0]), || format!("{name}: equal points hash differently (rep {ri} of {p:?})"));
            for q in &pts {
                let aq = sw_aff::<P>(*q);
                let e = sw_add(*p, *q, a);
                let es = sw_add(*p, q.map(|(x, y)| (x, -y)), a);
                t.check(sw_to(&(*pr + aq)) == e, || format!("{name}: mixed add rep {ri} of {p:?} + {q:?}"));
                t.check(sw_to(&(*pr - aq)) == es, || format!("{name}: mixed sub rep {ri} of {p:?} - {q:?}"));
                t.check((*pr == sw_reps::<P>(*q)[0]) == (p == q), || format!("{name}: eq {p:?} {q:?}"));
                for (qi, qr) in sw_reps::<P>(*q).iter().enumerate() {
                    t.check(sw_to(&(*pr + qr)) == e, || format!("{name}: add rep {ri} of {p:?} + rep {qi} of {q:?}"));
                    t.check(sw_to(&(*pr - qr)) == es, || format!("{name}: sub rep {ri} of {p:?} - rep {qi} of {q:?}"));
                    let mut s = *pr; s += qr; let mut d = *pr; d -= qr;
                    t.check(sw_to(&s) == e && sw_to(&d) == es, || format!("{name}: +=/-= {p:?} {q:?}"));
                }
                if ri == 0 {
                    t.check(sw_to(&(ap + aq)) == e && sw_to(&(ap - aq)) == es, || format!("{name}: affine {p:?} +/- affine {q:?}"));
                }
            }
        }
    }
    // batch normalisation and Sum: windows of the point list with the identity at every position
    for start in 0..pts.len().min(12) {
        for len in 0..5 {
            let seg: Vec<SwPt<P::BaseField>> = (0..len).map(|k| pts[(start * 3 + k * 5) % pts.len()]).collect();
            for idpos in 0..=len {
                let mut seg2 = seg.clone();
                if idpos < len { seg2[idpos] = None; }
                let proj: Vec<sw::Projective<P>> = seg2.iter().enumerate().map(|(k, p)| sw_reps::<P>(*p)[k % 2]).collect();
                let norm = sw::Projective::<P>::normalize_batch(&proj);
                t.check(norm.len() == len && norm.iter().zip(&seg2).all(|(n, p)| n.xy() == *p), || format!("{name}: normalize_batch({seg2:?})"));
                let sum: sw::Projective<P> = norm.iter().sum();
                let e = seg2.iter().fold(None, |acc, p| sw_add(acc, *p, a));
                t.check(sw_to(&sum) == e, || format!("{name}: Sum({seg2:?})"));
            }
        }
    }
}

fn hash_of<T: std::hash::Hash>(x: &T) -> u64 {
    use std::hash::Hasher;
    let mut h = std::collections::hash_map::DefaultHasher::new();
    x.hash(&mut h);
    h.finish()
}

// ------------------------------------------------------------------ twisted Edwards oracle
fn te_add<F: Field>(p: (F, F), q: (F, F), a: F, d: F) -> (F, F) {
    let (x1, y1) = p; let (x2, y2) = q;
    let k = d * x1 * x2 * y1 * y2;
    ((x1 * y2 + y1 * x2) * (F::one() + k).inverse().unwrap(), (y1 * y2 - a * x1 * x2) * (F::one() - k).inverse().unwrap())
}
fn te_mul<F: Field>(mut k: u128, p: (F, F), a: F, d: F) -> (F, F) {
    let mut r = (F::zero(), F::one());
    let mut b = p;
    while k > 0 { if k & 1 == 1 { r = te_add(r, b, a, d); } b = te_add(b, b, a, d); k >>= 1; }
    r
}
fn te_points<P: te::TECurveConfig>() -> Vec<(P::BaseField, P::BaseField)> where P::BaseField: PrimeField {
    let f = all::<P::BaseField>();
    let mut v = vec![];
    for x in &f { for y in &f { if te::Affine::<P>::new_unchecked(*x, *y).is_on_curve() { v.push((*x, *y)); } } }
    v
}
fn te_reps<P: te::TECurveConfig>(p: (P::BaseField, P::BaseField)) -> Vec<te::Projective<P>> where P::BaseField: PrimeField {
    [1u64, 2, 7].iter().map(|l| { let l = P::BaseField::from(*l); te::Projective::new_unchecked(p.0 * l, p.1 * l, p.0 * p.1 * l, l) }).collect()
}
fn te_to<P: te::TECurveConfig>(p: &te::Projective<P>) -> (P::BaseField, P::BaseField) { let a = p.into_affine(); (a.x, a.y) }

fn te_group<P: te::TECurveConfig>(t: &mut Tally, name: &str) where P::BaseField: PrimeField {
    let (a, d) = (P::COEFF_A, P::COEFF_D);
    let pts = te_points::<P>();
    let id = (P::BaseField::zero(), P::BaseField::one());
    for p in &pts {
        let ap = te::Affine::<P>::new_unchecked(p.0, p.1);
        for (ri, pr) in te_reps::<P>(*p).iter().enumerate() {
            t.check(te_to(pr) == *p, || format!("{name}: into_affine rep {ri} of {p:?}"));
            t.check(te_to(&pr.double()) == te_add(*p, *p, a, d), || format!("{name}: double rep {ri} of {p:?}"));
            t.check(te_to(&-*pr) == (-p.0, p.1), || format!("{name}: neg rep {ri} of {p:?}"));
            t.check(pr.is_zero() == (*p == id) && *pr == te_reps::<P>(*p)[0], || format!("{name}: is_zero/eq reps of {p:?}"));
            t.check(hash_of(pr) == hash_of(&te_reps::<P>(*p)[0]), || format!("{name}: equal points hash differently (rep {ri} of {p:?})"));
            for q in &pts {
                let aq = te::Affine::<P>::new_unchecked(q.0, q.1);
                let e = te_add(*p, *q, a, d);
                let es = te_add(*p, (-q.0, q.1), a, d);
                t.check(te_to(&(*pr + aq)) == e && te_to(&(*pr - aq)) == es, || format!("{name}: mixed add/sub rep {ri} of {p:?} {q:?}"));
                t.check((*pr == te_reps::<P>(*q)[1]) == (p == q), || format!("{name}: eq {p:?} {q:?}"));
                for (qi, qr) in te_reps::<P>(*q).iter().enumerate() {
                    t.check(te_to(&(*pr + qr)) == e && te_to(&(*pr - qr)) == es, || format!("{name}: add/sub rep {ri} of {p:?}, rep {qi} of {q:?}"));
                }
                if ri == 0 { t.check(te_to(&(ap + aq)) == e, || format!("{name}: affine {p:?} + affine {q:?}")); }
            }
        }
    }
    for start in 0..pts.len() {
        for len in 0..4 {
            let seg: Vec<_> = (0..len).map(|k| pts[(start + k * 7) % pts.len()]).collect();
            let proj: Vec<te::Projective<P>> = seg.iter().enumerate().map(|(k, p)| te_reps::<P>(*p)[k % 3]).collect();
            let norm = te::Projective::<P>::normalize_batch(&proj);
            t.check(norm.len() == len && norm.iter().zip(&seg).all(|(n, p)| (n.x, n.y) == *p), || format!("{name}: normalize_batch({seg:?})"));
            let sum: te::Projective<P> = norm.iter().sum();
            t.check(te_to(&sum) == seg.iter().fold(id, |acc, p| te_add(acc, *p, a, d)), || format!("{name}: Sum({seg:?})"));
        }
    }
}

/// coordinate recovery (C11): for EVERY base-field element the helpers return both roots in the documented order
/// (smaller first as integers), `greatest` selects the larger one, and None exactly when no point has that coordinate
fn sw_recover<P: sw::SWCurveConfig>(t: &mut Tally, name: &str) where P::BaseField: PrimeField {
    let pts = sw_points::<P>();
    for x in all::<P::BaseField>() {
        let ys: Vec<P::BaseField> = pts.iter().filter_map(|p| p.filter(|(px, _)| *px == x).map(|(_, y)| y)).collect();
        match sw::Affine::<P>::get_ys_from_x_unchecked(x) {
            None => t.check(ys.is_empty(), || format!("{name}: get_ys_from_x_unchecked({x}) = None but points exist")),
            Some((lo, hi)) => {
                t.check(ys.contains(&lo) && ys.contains(&hi) && lo == -hi && lo.into_bigint() <= hi.into_bigint(), || format!("{name}: get_ys_from_x_unchecked({x}) = ({lo}, {hi})"));
                let g = sw::Affine::<P>::get_point_from_x_unchecked(x, true).map(|p| p.y);
                let l = sw::Affine::<P>::get_point_from_x_unchecked(x, false).map(|p| p.y);
                t.check(g == Some(hi) && l == Some(lo), || format!("{name}: get_point_from_x_unchecked({x}, greatest) picks the wrong root"));
            },
        }
    }
}
fn te_recover<P: te::TECurveConfig>(t: &mut Tally, name: &str) where P::BaseField: PrimeField {
    let pts = te_points::<P>();
    for y in all::<P::BaseField>() {
        let xs: Vec<P::BaseField> = pts.iter().filter(|p| p.1 == y).map(|p| p.0).collect();
        match te::Affine::<P>::get_xs_from_y_unchecked(y) {
            None => t.check(xs.is_empty(), || format!("{name}: get_xs_from_y_unchecked({y}) = None but points exist")),
            Some((lo, hi)) => {
                t.check(xs.contains(&lo) && xs.contains(&hi) && lo == -hi && lo.into_bigint() <= hi.into_bigint(), || format!("{name}: get_xs_from_y_unchecked({y}) = ({lo}, {hi})"));
                let g = te::Affine::<P>::get_point_from_y_unchecked(y, true).map(|p| p.x);
                let l = te::Affine::<P>::get_point_from_y_unchecked(y, false).map(|p| p.x);
                t.check(g == Some(hi) && l == Some(lo), || format!("{name}: get_point_from_y_unchecked({y}, greatest) picks the wrong root"));
            },
        }
    }
}
pub fn recover(t: &mut Tally) {
    sw_recover::<Sw13>(t, "y^2=x^3+2/F13");
    sw_recover::<Sw101c>(t, "y^2=x^3+x+3/F101");
    te_recover::<Te13>(t, "3x^2+y^2=1+8x^2y^2/F13");
}

pub fn group_law(t: &mut Tally) {
    sw_group::<Sw13>(t, "y^2=x^3+2/F13");
    sw_group::<Sw101c>(t, "y^2=x^3+x+3/F101(cofactor 3)");
    te_group::<Te13>(t, "3x^2+y^2=1+8x^2y^2/F13");
}

// ------------------------------------------------------------------ scalar multiplication (C04) and subgroup tests (C12 default)
fn scalar_paths<G: CurveGroup + ScalarMul>(t: &mut Tally, name: &str, pts: &[G], oracle: &dyn Fn(u128, &G) -> G, r: u64) where G::ScalarField: PrimeField {
    for p in pts {
        let aff = p.into_affine();
        for k in (0..(2 * r + 3)).chain([u64::MAX, u64::MAX - 1, 1 << 63]) {
            let e = oracle(k as u128, p);
            t.check(p.mul_bigint([k]) == e, || format!("{name}: mul_bigint([{k}])"));
            t.check(p.mul_bigint([k, 0, 0]) == e, || format!("{name}: mul_bigint([{k},0,0]) (leading zero limbs)"));
            t.check(aff.mul_bigint([k]) == e, || format!("{name}: affine mul_bigint([{k}])"));
            if k < 2 * r + 3 {
                // scalar-field paths multiply by the canonical representative k mod r (P need not lie in the subgroup)
                let e = oracle((k % r) as u128, p);
                let s = G::ScalarField::from(k);
                t.check(*p * s == e && aff * s == e, || format!("{name}: P * Fr({k})"));
                let mut q = *p; q *= s;
                t.check(q == e, || format!("{name}: P *= Fr({k})"));
                for w in 2..7usize {
                    let ctx = WnafContext::new(w);
                    t.check(ctx.mul(*p, &s) == e, || format!("{name}: wnaf window {w} k={k}"));
                    let table = ctx.table(*p);
                    t.check(ctx.mul_with_table(&table, &s) == Some(e), || format!("{name}: wnaf table window {w} k={k}"));
                    t.check(table.len() == 1 << (w - 1), || format!("{name}: wnaf table window {w} has {} entries", table.len()));
                    // every too-short prefix of the table is refused (None), without panic; a longer table is accepted
                    if k < 40 {
                        for cut in 0..table.len() {
                            let (tb, sc) = (table[..cut].to_vec(), s);
                            let out = t.no_panic(std::panic::AssertUnwindSafe(move || WnafContext::new(w).mul_with_table(&tb, &sc).is_none()), || format!("{name}: wnaf window {w} with a table of {cut} entries, k={k}"));
                            if let Some(is_none) = out { t.check(is_none, || format!("{name}: wnaf window {w} accepts a table of {cut} < 2^(w-1) entries (k={k})")); }
                        }
                        let mut longer = table.clone(); longer.push(*p);
                        t.check(ctx.mul_with_table(&longer, &s) == Some(e), || format!("{name}: wnaf window {w} with an over-long table k={k}"));
                    }
                }
            }
        }
        // bit-stream multiplication: EVERY big-endian bit string of length <= 9 (empty, all-zero and leading zeros included)
        for len in 0..10usize {
            for bits in 0..(1u64 << len) {
                let be: Vec<bool> = (0..len).rev().map(|i| (bits >> i) & 1 == 1).collect();
                t.check(p.mul_bits_be(be.iter().cloned()) == oracle(bits as u128, p), || format!("{name}: mul_bits_be({be:?})"));
            }
        }
        // two-limb scalars: k + j * 2^64
        for j in 1..3u64 { for k in [0u64, 1, r - 1, u64::MAX] {
            let kk = (j as u128) << 64 | k as u128;
            t.check(p.mul_bigint([k, j]) == oracle(kk, p), || format!("{name}: mul_bigint([{k},{j}])"));
        } }
        // fixed-base batch multiplication with several table sizings
        let scalars: Vec<G::ScalarField> = (0..(r.min(40))).map(G::ScalarField::from).collect();
        let expect: Vec<G> = (0..(r.min(40))).map(|k| oracle(k as u128, p)).collect();
        for n in [1usize, 2, 3, 5, 8, 33, scalars.len()] {
            let n = n.min(scalars.len());
            let got = p.batch_mul(&scalars[..n]);
            t.check(got.iter().zip(&expect).all(|(g, e)| G::from(g.clone()) == *e) && got.len() == n, || format!("{name}: batch_mul with {n} scalars"));
            let table = BatchMulPreprocessing::new(*p, n);
            let got = table.batch_mul(&scalars);
            t.check(got.iter().zip(&expect).all(|(g, e)| G::from(g.clone()) == *e), || format!("{name}: BatchMulPreprocessing::new(_, {n}).batch_mul(all)"));
        }
        for (ns, ssize) in [(1usize, 1usize), (3, 5), (7, 8), (2, 64), (16, 3)] {
            let table = BatchMulPreprocessing::with_num_scalars_and_scalar_size(*p, ns, ssize);
            let lim = (1u64 << ssize.min(20)).min(scalars.len() as u64) as usize;
            let got = table.batch_mul(&scalars[..lim]);
            t.check(got.iter().zip(&expect).all(|(g, e)| G::from(g.clone()) == *e), || format!("{name}: table(num_scalars={ns}, scalar_size={ssize})"));
        }
    }
}

pub fn scalar_mul(t: &mut Tally, _seed: u64) {
    {
        let a = <Sw13 as sw::SWCurveConfig>::COEFF_A;
        let pts: Vec<sw::Projective<Sw13>> = sw_points::<Sw13>().iter().map(|p| sw_reps::<Sw13>(*p)[1 % sw_reps::<Sw13>(*p).len()]).collect();
        scalar_paths(t, "Sw13", &pts, &|k, p| sw_aff::<Sw13>(sw_mul(k, sw_to(p), a)).into_group(), 19);
    }
    {
        let a = <Sw101c as sw::SWCurveConfig>::COEFF_A;
        let all_pts = sw_points::<Sw101c>();
        let pts: Vec<sw::Projective<Sw101c>> = all_pts.iter().step_by(5).map(|p| sw_reps::<Sw101c>(*p)[0]).collect();
        scalar_paths(t, "Sw101c", &pts, &|k, p| sw_aff::<Sw101c>(sw_mul(k, sw_to(p), a)).into_group(), 29);
        // default subgroup membership test and cofactor clearing on EVERY point of the curve (cofactor 3)
        for p in &all_pts {
            let ap = sw_aff::<Sw101c>(*p);
            let in_sub = sw_mul(29, *p, a).is_none();
            t.check(ap.is_in_correct_subgroup_assuming_on_curve() == in_sub, || format!("Sw101c: subgroup test on {p:?}"));
            let c = ap.clear_cofactor();
            t.check(c.xy() == sw_mul(3, *p, a) && c.is_in_correct_subgroup_assuming_on_curve(), || format!("Sw101c: clear_cofactor({p:?})"));
            if in_sub { t.check(ap.mul_by_cofactor_inv().mul_by_cofactor() == ap, || format!("Sw101c: cofactor * cofactor_inv on {p:?}")); }
        }
    }
    {
        let (a, d) = (<Te13 as te::TECurveConfig>::COEFF_A, <Te13 as te::TECurveConfig>::COEFF_D);
        let all_pts = te_points::<Te13>();
        let pts: Vec<te::Projective<Te13>> = all_pts.iter().map(|p| te_reps::<Te13>(*p)[1]).collect();
        scalar_paths(t, "Te13", &pts, &|k, p| { let q = te_mul(k, te_to(p), a, d); te::Affine::<Te13>::new_unchecked(q.0, q.1).into_group() }, 5);
        for p in &all_pts {
            let ap = te::Affine::<Te13>::new_unchecked(p.0, p.1);
            let in_sub = te_mul(5, *p, a, d) == (<Te13 as ark_ec::CurveConfig>::BaseField::zero(), <Te13 as ark_ec::CurveConfig>::BaseField::one());
            t.check(ap.is_in_correct_subgroup_assuming_on_curve() == in_sub, || format!("Te13: subgroup test on {p:?}"));
            let c = ap.clear_cofactor();
            t.check((c.x, c.y) == te_mul(4, *p, a, d), || format!("Te13: clear_cofactor({p:?})"));
        }
    }
}

// ------------------------------------------------------------------ multi-scalar multiplication (C05)
fn msm_paths<G: CurveGroup + VariableBaseMSM>(t: &mut Tally, name: &str, pts: &[G], rng: &mut Rng, r: u64) where G::ScalarField: PrimeField {
    let bases_all: Vec<G::MulBase> = G::batch_convert_to_mul_base(pts);
    let naive = |b: &[G::MulBase], s: &[G::ScalarField]| -> G { b.iter().zip(s).map(|(b, s)| G::from(b.clone()) * s).sum() };
    let special = [0u64, 1, r - 1, 2];
    for len in (0..12usize).chain([31, 32, 33, 63, 64, 65, 200]) {
        for round in 0..6 {
            let bases: Vec<G::MulBase> = (0..len).map(|i| if round == 1 { bases_all[0].clone() } else if round == 2 && i % 3 == 0 { bases_all[0].clone() } else { bases_all[(rng.next() as usize) % bases_all.len()].clone() }).collect();
            let scalars: Vec<G::ScalarField> = (0..len).map(|i| G::ScalarField::from(if round == 3 { special[i % 4] } else if round == 4 { 0 } else { rng.next() % r })).collect();
            let e = naive(&bases, &scalars);
            t.check(G::msm(&bases, &scalars) == Ok(e), || format!("{name}: msm len {len} round {round}"));
            t.check(G::msm_unchecked(&bases, &scalars) == e, || format!("{name}: msm_unchecked len {len} round {round}"));
            let bigs: Vec<_> = scalars.iter().map(|s| s.into_bigint()).collect();
            t.check(G::msm_bigint(&bases, &bigs) == e, || format!("{name}: msm_bigint len {len} round {round}"));
            // mismatched lengths: checked reports min, unchecked truncates
            if len >= 2 {
                t.check(G::msm(&bases[..len - 1], &scalars) == Err(len - 1) && G::msm(&bases, &scalars[..len - 2]) == Err(len - 2), || format!("{name}: msm length mismatch len {len}"));
                t.check(G::msm_unchecked(&bases[..len - 1], &scalars) == naive(&bases[..len - 1], &scalars), || format!("{name}: msm_unchecked truncation len {len}"));
                t.check(G::msm_unchecked(&bases, &scalars[..len - 1]) == naive(&bases, &scalars[..len - 1]), || format!("{name}: msm_unchecked truncation (scalars shorter) len {len}"));
            }
            t.check(G::msm_chunks(&bases.as_slice(), &scalars.as_slice()) == e, || format!("{name}: msm_chunks len {len} round {round}"));
            // a scalar stream shorter than the base stream is aligned with the END of the base stream
            if len >= 2 {
                for k in [1usize, len / 2, len - 1] {
                    if k == 0 { continue; }
                    t.check(G::msm_chunks(&bases.as_slice(), &&scalars[..k]) == naive(&bases[len - k..], &scalars[..k]), || format!("{name}: msm_chunks with {len} bases and {k} scalars != sum over the last {k} bases"));
                }
            }
            // incremental accumulators, every buffer size 1..len+1
            if len <= 12 {
                for buf in 1..(len + 2) {
                    let mut cp = ChunkedPippenger::<G>::with_size(buf);
                    let mut hp = HashMapPippenger::<G>::new(buf);
                    for (b, s) in bases.iter().zip(&scalars) { cp.add(b, s.into_bigint()); hp.add(b, s); }
                    t.check(cp.finalize() == e, || format!("{name}: ChunkedPippenger buf {buf} len {len} round {round}"));
                    t.check(hp.finalize() == e, || format!("{name}: HashMapPippenger buf {buf} len {len} round {round}"));
                }
            }
        }
    }
}
pub fn msm(t: &mut Tally, seed: u64) {
    let mut rng = Rng(seed.wrapping_mul(0x9E3779B97F4A7C15) | 1);
    let pts: Vec<sw::Projective<Sw13>> = sw_points::<Sw13>().iter().map(|p| sw_reps::<Sw13>(*p)[0]).collect();
    msm_paths(t, "Sw13", &pts, &mut rng, 19);
    let pts: Vec<sw::Projective<Sw101>> = sw_points::<Sw101>().iter().map(|p| sw_reps::<Sw101>(*p)[0]).collect();
    msm_paths(t, "Sw101", &pts, &mut rng, 107);
    let g = te::Affine::<Te13>::new_unchecked(<Te13 as te::TECurveConfig>::GENERATOR.x, <Te13 as te::TECurveConfig>::GENERATOR.y).into_group();
    let pts: Vec<te::Projective<Te13>> = (0..5u64).map(|k| g.mul_bigint([k])).collect();
    msm_paths(t, "Te13(subgroup)", &pts, &mut rng, 5);
}

// ------------------------------------------------------------------ point codecs (C09 / C10)
fn codec<A: AffineRepr + CanonicalSerialize + CanonicalDeserialize>(t: &mut Tally, name: &str, pts: &[A], valid: &dyn Fn(&A) -> bool) {
    for c in [Compress::Yes, Compress::No] {
        let cs = if matches!(c, Compress::Yes) { "compressed" } else { "uncompressed" };
        let size = pts[0].serialized_size(c);
        for p in pts {
            let mut buf = vec![];
            let ok = p.serialize_with_mode(&mut buf, c).is_ok();
            t.check(ok && buf.len() == p.serialized_size(c) && buf.len() == size, || format!("{name}: serialize {cs} size"));
            for v in [Validate::Yes, Validate::No] {
                let vs = if matches!(v, Validate::Yes) { "checked" } else { "unchecked" };
                let r = A::deserialize_with_mode(&buf[..], c, v);
                let in_sub = valid(p);
                match r {
                    Ok(q) => t.check(q == *p && (in_sub || matches!(v, Validate::No)), || format!("{name}: round trip {cs} {vs}")),
                    Err(_) => t.check(!in_sub && matches!(v, Validate::Yes), || format!("{name}: valid point rejected {cs} {vs}")),
                }
            }
            let pg = p.into_group();
            let mut buf2 = vec![];
            t.check(pg.serialize_with_mode(&mut buf2, c).is_ok() && buf2 == buf && pg.serialized_size(c) == size, || format!("{name}: projective serialization {cs}"));
            let back = <A::Group as CanonicalDeserialize>::deserialize_with_mode(&buf[..], c, Validate::No);
            t.check(back.ok() == Some(pg), || format!("{name}: projective round trip {cs}"));
        }
        // every byte string of the advertised length, and every truncation: Err or a value, never a panic;
        // with validation a returned point is on the curve and in the subgroup
        if size <= 2 {
            for code in 0..(1u32 << (8 * size)) {
                let bytes: Vec<u8> = (0..size).map(|i| (code >> (8 * i)) as u8).collect();
                for cut in 0..=size {
                    let r = std::panic::catch_unwind(|| A::deserialize_with_mode(&bytes[..cut], c, Validate::Yes));
                    match r {
                        Err(_) => t.check(false, || format!("{name}: deserialize {cs} PANICS on {:?}", &bytes[..cut])),
                        Ok(Ok(q)) => t.check(cut == size && valid(&q) && pts.contains(&q), || format!("{name}: deserialize {cs} accepted {:?} -> invalid point", &bytes[..cut])),
                        Ok(Err(_)) => t.check(true, || String::new()),
                    }
                }
            }
        }
    }
}
pub fn serialization(t: &mut Tally) {
    let a13 = <Sw13 as sw::SWCurveConfig>::COEFF_A;
    let pts: Vec<sw::Affine<Sw13>> = sw_points::<Sw13>().iter().map(|p| sw_aff::<Sw13>(*p)).collect();
    codec(t, "Sw13", &pts, &|_| true);
    let _ = a13;
    let a = <Sw101c as sw::SWCurveConfig>::COEFF_A;
    let raw = sw_points::<Sw101c>();
    let pts: Vec<sw::Affine<Sw101c>> = raw.iter().map(|p| sw_aff::<Sw101c>(*p)).collect();
    codec(t, "Sw101c", &pts, &|p| sw_mul(29, p.xy(), a).is_none());
    let (ta, td) = (<Te13 as te::TECurveConfig>::COEFF_A, <Te13 as te::TECurveConfig>::COEFF_D);
    let pts: Vec<te::Affine<Te13>> = te_points::<Te13>().iter().map(|p| te::Affine::new_unchecked(p.0, p.1)).collect();
    codec(t, "Te13", &pts, &|p| te_mul(5, (p.x, p.y), ta, td) == (<Te13 as ark_ec::CurveConfig>::BaseField::zero(), <Te13 as ark_ec::CurveConfig>::BaseField::one()));
    // 8-bit modulus (241): no spare bit in the top byte, flags spill into an extra byte
    let (ta, td) = (<Te241 as te::TECurveConfig>::COEFF_A, <Te241 as te::TECurveConfig>::COEFF_D);
    let pts: Vec<te::Affine<Te241>> = te_points::<Te241>().iter().map(|p| te::Affine::new_unchecked(p.0, p.1)).collect();
    t.check(pts.len() == 232, || format!("Te241: {} points, expected 232", pts.len()));
    codec(t, "Te241", &pts, &|p| te_mul(29, (p.x, p.y), ta, td) == (<Te241 as ark_ec::CurveConfig>::BaseField::zero(), <Te241 as ark_ec::CurveConfig>::BaseField::one()));
    let pts: Vec<sw::Affine<mnt4a::G1C>> = sw_points::<mnt4a::G1C>().iter().map(|p| sw_aff::<mnt4a::G1C>(*p)).collect();
    t.check(pts.len() == 257, || format!("Sw241: {} points, expected 257", pts.len()));
    codec(t, "Sw241", &pts, &|_| true);
    // cubic extension with flags (the flag byte travels in the last coordinate): every element x every flag value
    {
        use ark_ec::models::short_weierstrass::SWFlags;
        use ark_ec::models::twisted_edwards::TEFlags;
        use ark_serialize::{CanonicalDeserializeWithFlags, CanonicalSerializeWithFlags, EmptyFlags, Flags};
        let mut all3 = vec![];
        for a in 0..7u64 { for b in 0..7u64 { for c in 0..7u64 { all3.push(F343::new(F7::from(a), F7::from(b), F7::from(c))); } } }
        for x in &all3 {
            for f in [SWFlags::YIsNegative, SWFlags::YIsPositive, SWFlags::PointAtInfinity] {
                let mut buf = vec![];
                let ok = x.serialize_with_flags(&mut buf, f).is_ok() && buf.len() == x.serialized_size_with_flags::<SWFlags>();
                let back = F343::deserialize_with_flags::<_, SWFlags>(&buf[..]);
                t.check(ok && matches!(&back, Ok((y, g)) if y == x && g.u8_bitmask() == f.u8_bitmask()), || format!("F7^3: serialize_with_flags round trip of {x} with SW flag mask {:#x}", f.u8_bitmask()));
            }
            for f in [TEFlags::XIsPositive, TEFlags::XIsNegative] {
                let mut buf = vec![];
                let ok = x.serialize_with_flags(&mut buf, f).is_ok() && buf.len() == x.serialized_size_with_flags::<TEFlags>();
                let back = F343::deserialize_with_flags::<_, TEFlags>(&buf[..]);
                t.check(ok && matches!(&back, Ok((y, g)) if y == x && g.u8_bitmask() == f.u8_bitmask()), || format!("F7^3: serialize_with_flags round trip of {x} with TE flag mask {:#x}", f.u8_bitmask()));
            }
            let mut buf = vec![];
            let ok = x.serialize_with_flags(&mut buf, EmptyFlags).is_ok() && buf.len() == 3;
            t.check(ok && F343::deserialize_compressed(&buf[..]).ok() == Some(*x), || format!("F7^3: plain round trip of {x}"));
        }
        // uniqueness: every 3-byte string that decodes re-encodes to itself (2^24 strings)
        let mut n = 0u32;
        for code in 0..(1u32 << 24) {
            let bytes = [(code & 0xff) as u8, (code >> 8) as u8, (code >> 16) as u8];
            if let Ok(x) = F343::deserialize_compressed(&bytes[..]) {
                let mut out = vec![];
                t.check(x.serialize_compressed(&mut out).is_ok() && out == bytes, || format!("F7^3: bytes {bytes:?} decode but re-encode to {out:?}"));
                n += 1;
            }
        }
        t.check(n == 343, || format!("F7^3: {n} of 2^24 three-byte strings decode, expected 343"));
        t.cases += 1 << 24;
    }
    // field elements of toy extension fields: round trip and uniqueness for all byte strings
    let mut n = 0u32;
    for code in 0..65536u32 {
        let bytes = [(code & 0xff) as u8, (code >> 8) as u8];
        if let Ok(x) = F49::deserialize_compressed(&bytes[..]) {
            let mut out = vec![];
            t.check(x.serialize_compressed(&mut out).is_ok() && out == bytes, || format!("F7^2: bytes {bytes:?} decode but re-encode to {out:?}"));
            n += 1;
        }
    }
    t.check(n == 49, || format!("F7^2: {n} of 65536 two-byte strings decode, expected 49"));
}
