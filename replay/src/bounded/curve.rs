pub fn group_law(_t: &mut super::Tally) {}
pub fn scalar_mul(_t: &mut super::Tally, _seed: u64) {}
pub fn msm(_t: &mut super::Tally, _seed: u64) {}
pub fn serialization(_t: &mut super::Tally) {}
