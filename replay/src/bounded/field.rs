//! C01 (generic field layer), C11 (square roots), C02 (toy towers): exhaustive over toy fields.
use super::{toy::*, Tally};
use crate::Rng;
use ark_ff::{batch_inversion_and_mul, AdditiveGroup, BigInteger, CyclotomicMultSubgroup, Field, LegendreSymbol, One, PrimeField, Zero};
use core::str::FromStr;

fn val<F: PrimeField>(x: &F) -> u64 { x.into_bigint().as_ref()[0] }
fn all<F: PrimeField>() -> Vec<F> {
    let p = F::MODULUS.as_ref()[0];
    (0..p).map(|i| F::from_bigint(F::BigInt::from(i)).unwrap()).collect()
}

fn prime_field_layer<F: PrimeField>(t: &mut Tally, name: &str, full_pairs: bool) {
    let p = F::MODULUS.as_ref()[0];
    let els = all::<F>();
    for (i, a) in els.iter().enumerate() {
        let i = i as u64;
        t.check(val(a) == i, || format!("{name}: into_bigint(from_bigint({i})) = {}", val(a)));
        t.check(val(&-*a) == (p - i) % p, || format!("{name}: neg {i}"));
        t.check(val(&a.double()) == (2 * i) % p, || format!("{name}: double {i}"));
        t.check(val(&a.square()) == (i * i) % p, || format!("{name}: square {i}"));
        t.check(a.is_zero() == (i == 0) && a.is_one() == (i == 1 % p), || format!("{name}: is_zero/is_one {i}"));
        match a.inverse() {
            None => t.check(i == 0, || format!("{name}: inverse({i}) = None")),
            Some(x) => t.check(i != 0 && (val(&x) * i) % p == 1, || format!("{name}: inverse({i}) = {}", val(&x))),
        }
        t.check(F::from_str(&format!("{i}")).ok() == Some(*a) && format!("{a}") == format!("{i}"), || format!("{name}: decimal round trip {i}"));
        t.check(F::from(i) == *a && F::from(i + p) == *a && F::from(i as u128 + 3 * p as u128) == *a, || format!("{name}: From<u64/u128> {i}"));
        t.check(F::from(-(i as i64)) == -*a && F::from(-(i as i128) - p as i128) == -*a, || format!("{name}: From<i64/i128> -{i}"));
        let js: Vec<usize> = if full_pairs { (0..els.len()).collect() } else { vec![0, 1, 2, (p / 2) as usize, (p - 2) as usize, (p - 1) as usize, (i as usize * 7 + 3) % p as usize] };
        for j in js {
            let b = els[j];
            let j = j as u64;
            t.check(val(&(*a + b)) == (i + j) % p, || format!("{name}: {i} + {j}"));
            t.check(val(&(*a - b)) == (i + p - j) % p, || format!("{name}: {i} - {j}"));
            t.check(val(&(*a * b)) == (i * j) % p, || format!("{name}: {i} * {j} = {}", val(&(*a * b))));
            t.check((*a < b) == (i < j) && (*a == b) == (i == j), || format!("{name}: cmp {i} {j}"));
            if j != 0 { t.check(val(&(*a / b)) * j % p == i, || format!("{name}: {i} / {j}")); }
            t.check(F::sum_of_products(&[*a, b], &[b, *a]) == (*a * b).double(), || format!("{name}: sum_of_products2 {i} {j}"));
        }
        // exponentiation
        let mut acc = F::one();
        for e in 0..(2 * p + 3).min(300) {
            t.check(a.pow([e]) == acc, || format!("{name}: {i}^{e}"));
            acc *= a;
        }
        t.check(a.pow([0u64, 0, 0]) == F::one(), || format!("{name}: {i}^0 with leading zero limbs"));
    }
    // legendre = Euler
    let squares: std::collections::HashSet<u64> = (0..p).map(|y| y * y % p).collect();
    for (i, a) in els.iter().enumerate() {
        let l = a.legendre();
        let e = if i == 0 { LegendreSymbol::Zero } else if squares.contains(&(i as u64)) { LegendreSymbol::QuadraticResidue } else { LegendreSymbol::QuadraticNonResidue };
        t.check(l == e, || format!("{name}: legendre {i}"));
    }
}

fn bytes_mod_order<F: PrimeField>(t: &mut Tally, name: &str, rng: &mut Rng) {
    let p = F::MODULUS.as_ref()[0] as u128;
    let mut test = |b: &[u8], t: &mut Tally| {
        let mut le: u128 = 0;
        for x in b.iter().rev() { le = (le * 256 + *x as u128) % p; }
        let mut be: u128 = 0;
        for x in b.iter() { be = (be * 256 + *x as u128) % p; }
        let r = std::panic::catch_unwind(|| (val(&F::from_le_bytes_mod_order(b)) as u128, val(&F::from_be_bytes_mod_order(b)) as u128));
        t.check(r.as_ref().ok() == Some(&(le, be)), || format!("{name}: from_bytes_mod_order({b:?}) = {r:?}, expected ({le},{be})"));
    };
    test(&[], t);
    for a in 0..=255u8 {
        test(&[a], t);
        for b in 0..=255u8 {
            test(&[a, b], t);
        }
    }
    for _ in 0..20000 {
        let n = 3 + (rng.next() % 4) as usize;
        let b: Vec<u8> = (0..n).map(|_| { let r = rng.next(); if r % 3 == 0 { 0xff } else { (r >> 8) as u8 } }).collect();
        test(&b, t);
    }
}

fn batch_inv<F: PrimeField>(t: &mut Tally, name: &str) {
    let els = all::<F>();
    let small: Vec<F> = els.iter().cloned().take(4).chain(els.iter().cloned().rev().take(2)).collect();
    for c in &small {
        for n in 0..4usize {
            // all vectors of length n over `small`
            let total = small.len().pow(n as u32);
            for code in 0..total {
                let mut v: Vec<F> = Vec::new();
                let mut k = code;
                for _ in 0..n { v.push(small[k % small.len()]); k /= small.len(); }
                let orig = v.clone();
                batch_inversion_and_mul(&mut v, c);
                let ok = orig.iter().zip(&v).all(|(o, r)| if o.is_zero() { r.is_zero() } else { *r * *o == *c });
                t.check(ok, || format!("{name}: batch_inversion_and_mul({:?}, {}) = {:?}", orig.iter().map(val).collect::<Vec<_>>(), val(c), v.iter().map(val).collect::<Vec<_>>()));
            }
        }
    }
    // sum_of_products for lengths 1..6 (the derive macro's generated code and its chunking)
    for n in 1..7usize {
        for code in 0..small.len().pow(2).min(36) {
            let a: Vec<F> = (0..n).map(|k| small[(code + k) % small.len()]).collect();
            let b: Vec<F> = (0..n).map(|k| small[(code / small.len() + 2 * k) % small.len()]).collect();
            let e: F = a.iter().zip(&b).map(|(x, y)| *x * y).sum();
            macro_rules! sop { ($m:literal) => { if n == $m { let aa: [F; $m] = a.clone().try_into().unwrap(); let bb: [F; $m] = b.clone().try_into().unwrap(); t.check(F::sum_of_products(&aa, &bb) == e, || format!("{name}: sum_of_products len {}", $m)); } }; }
            sop!(1); sop!(2); sop!(3); sop!(4); sop!(5); sop!(6);
        }
    }
}

pub fn field_layer(t: &mut Tally, seed: u64) {
    let mut rng = Rng(seed.wrapping_mul(0x9E3779B97F4A7C15) | 1);
    prime_field_layer::<F7>(t, "F7", true);
    prime_field_layer::<F13>(t, "F13", true);
    prime_field_layer::<F101>(t, "F101", true);
    prime_field_layer::<F251>(t, "F251", false);
    bytes_mod_order::<F101>(t, "F101", &mut rng);
    bytes_mod_order::<F251>(t, "F251", &mut rng);
    bytes_mod_order::<F65521>(t, "F65521", &mut rng);
    batch_inv::<F7>(t, "F7");
    batch_inv::<F101>(t, "F101");
    // SAMPLED (not exhaustive): the generator's unrolled multi-limb code against integers
    multi_limb::<W2sp>(t, "derive N=2 spare bit", &mut rng);
    multi_limb::<W2ns>(t, "derive N=2 no spare bit", &mut rng);
    multi_limb::<W2s2>(t, "derive N=2 p=2^126-137 (two spare bits)", &mut rng);
    multi_limb::<W2m127>(t, "derive N=2 p=2^127-1", &mut rng);
    multi_limb::<W3ns>(t, "derive N=3 p=2^192-237", &mut rng);
    multi_limb::<W4fr>(t, "derive N=4 BLS12-381 Fr", &mut rng);
    multi_limb::<W4secp>(t, "derive N=4 secp256k1 Fq", &mut rng);
    multi_limb::<W6fq>(t, "derive N=6 BLS12-381 Fq", &mut rng);
}

/// structured operands (limbs from {0, 1, 2^63, 2^64-2, 2^64-1, ...} reduced mod p, values next to 0 and p, seeded random ones):
/// add, sub, neg, double, mul, square, inverse, sum_of_products, from/into_bigint against num-bigint
fn multi_limb<F: PrimeField>(t: &mut Tally, name: &str, rng: &mut Rng) {
    use num_bigint::BigUint;
    let p = BigUint::from_bytes_le(&F::MODULUS.to_bytes_le());
    let n = ((F::MODULUS_BIT_SIZE + 63) / 64) as usize;
    let big = |x: &F| BigUint::from_bytes_le(&x.into_bigint().to_bytes_le());
    let fe = |x: &BigUint| F::from_le_bytes_mod_order(&x.to_bytes_le());
    let limbs = |l: &[u64]| { let mut b = vec![]; for x in l { b.extend_from_slice(&x.to_le_bytes()); } BigUint::from_bytes_le(&b) % &p };
    let pool = [0u64, 1, 1 << 63, u64::MAX - 1, u64::MAX, 0x8000_0000_0000_0001, 0x7fff_ffff_ffff_ffff];
    let mut ops: Vec<BigUint> = vec![0u8.into(), 1u8.into(), 2u8.into(), &p - 1u8, &p - 2u8, (&p - 1u8) >> 1u32, ((&p - 1u8) >> 1u32) + 1u8];
    for &w in &pool { ops.push(limbs(&vec![w; n])); }
    for k in 0..n { let mut v = vec![0u64; n]; v[k] = u64::MAX; ops.push(limbs(&v)); v[k] = 1; ops.push(limbs(&v)); let mut w = vec![u64::MAX; n]; w[k] = 0; ops.push(limbs(&w)); }
    for _ in 0..60 { let v: Vec<u64> = (0..n).map(|_| { let r = rng.next(); if r % 3 == 0 { rng.next() } else { pool[(r % 7) as usize] } }).collect(); ops.push(limbs(&v)); }
    for (i, ia) in ops.iter().enumerate() {
        let a = fe(ia);
        t.check(big(&a) == *ia, || format!("{name}: from_le_bytes_mod_order({ia}) reads back {}", big(&a)));
        t.check(big(&a.square()) == (ia * ia) % &p, || format!("{name}: ({ia})^2"));
        t.check(big(&a.double()) == (ia * 2u8) % &p && big(&(-a)) == (&p - ia) % &p, || format!("{name}: double / neg of {ia}"));
        match a.inverse() { Some(inv) => t.check((inv * a).is_one(), || format!("{name}: inverse({ia})")), None => t.check(a.is_zero(), || format!("{name}: inverse({ia}) = None")) }
        for d in 0..16usize {
            let ib = &ops[(i + d * 7 + 1) % ops.len()];
            let b = fe(ib);
            t.check(big(&(a * b)) == (ia * ib) % &p, || format!("{name}: {ia} * {ib}"));
            t.check(big(&(a + b)) == (ia + ib) % &p && big(&(a - b)) == (ia + &p - ib) % &p, || format!("{name}: {ia} +/- {ib}"));
            let ic = &ops[(i + d * 11 + 3) % ops.len()];
            let c = fe(ic);
            t.check(big(&F::sum_of_products(&[a, b, c], &[b, c, a])) == (ia * ib + ib * ic + ic * ia) % &p, || format!("{name}: sum_of_products over {ia}, {ib}, {ic}"));
        }
    }
    // inner products of every length 1..=9 on operands whose Montgomery representation is near p (the batching bound of the
    // generated sum_of_products depends on the number of spare bits): x with x*R near p, i.e. x = (p - d) * R^{-1}
    let r_inv = fe(&(BigUint::from(1u8) << (64 * n))).inverse().unwrap();
    let near: Vec<F> = (1..=12u32).map(|d| fe(&(&p - d)) * r_inv).chain([fe(&(&p - 1u8)), fe(&((&p - 1u8) >> 1u32))]).collect();
    macro_rules! sop { ($m:literal) => {{
        for s in 0..near.len() {
            let a: [F; $m] = core::array::from_fn(|k| near[(s + k) % near.len()]);
            let b: [F; $m] = core::array::from_fn(|k| near[(s + 2 * k + 1) % near.len()]);
            let e = a.iter().zip(&b).fold(BigUint::from(0u8), |acc, (x, y)| (acc + big(x) * big(y)) % &p);
            let got = F::sum_of_products(&a, &b);
            t.check(big(&got) == e && got == fe(&e), || format!("{name}: sum_of_products of length {} on near-modulus operands (start {s})", $m));
        }
    }}; }
    sop!(1); sop!(2); sop!(3); sop!(4); sop!(5); sop!(6); sop!(7); sop!(8); sop!(9);
}

fn sqrt_prime<F: PrimeField>(t: &mut Tally, name: &str) {
    let p = F::MODULUS.as_ref()[0];
    let squares: std::collections::HashSet<u64> = (0..p).map(|y| y * y % p).collect();
    for (i, a) in all::<F>().iter().enumerate() {
        let i = i as u64;
        match a.sqrt() {
            Some(r) => t.check(squares.contains(&i) && r.square() == *a, || format!("{name}: sqrt({i}) = {}", val(&r))),
            None => t.check(!squares.contains(&i), || format!("{name}: sqrt({i}) = None but it is a square")),
        }
        if i == 0 { t.check(a.sqrt() == Some(F::zero()), || format!("{name}: sqrt(0)")); }
    }
}
fn sqrt_ext<E: Field>(t: &mut Tally, name: &str, els: &[E]) {
    let squares: std::collections::HashSet<String> = els.iter().map(|y| format!("{}", y.square())).collect();
    for a in els {
        let is_sq = squares.contains(&format!("{a}"));
        let r = std::panic::catch_unwind(std::panic::AssertUnwindSafe(|| a.sqrt()));
        match r {
            Ok(Some(r)) => t.check(is_sq && r.square() == *a, || format!("{name}: sqrt({a}) = {r}")),
            Ok(None) => t.check(!is_sq, || format!("{name}: sqrt({a}) = None but it is a square")),
            Err(_) => t.check(false, || format!("{name}: sqrt({a}) panicked")),
        }
        let l = a.legendre();
        t.check(l.is_zero() == a.is_zero() && l.is_qr() == (is_sq && !a.is_zero()), || format!("{name}: legendre({a})"));
    }
}
fn all_fp2<P: ark_ff::Fp2Config>() -> Vec<ark_ff::Fp2<P>> where P::Fp: PrimeField {
    let b = all::<P::Fp>();
    let mut v = vec![];
    for c1 in &b { for c0 in &b { v.push(ark_ff::Fp2::<P>::new(*c0, *c1)); } }
    v
}
fn all_fp3<P: ark_ff::Fp3Config>() -> Vec<ark_ff::Fp3<P>> where P::Fp: PrimeField {
    let b = all::<P::Fp>();
    let mut v = vec![];
    for c2 in &b { for c1 in &b { for c0 in &b { v.push(ark_ff::Fp3::<P>::new(*c0, *c1, *c2)); } } }
    v
}

pub fn sqrt_all(t: &mut Tally) {
    sqrt_prime::<F7>(t, "F7");
    sqrt_prime::<F13>(t, "F13");
    sqrt_prime::<F17>(t, "F17");
    sqrt_prime::<F97>(t, "F97");
    sqrt_prime::<F101>(t, "F101");
    sqrt_prime::<F251>(t, "F251");
    sqrt_prime::<F65521>(t, "F65521");
    sqrt_ext(t, "F7^2", &all_fp2::<F7x2>());
    sqrt_ext(t, "F13^2", &all_fp2::<F13x2>());
    sqrt_ext(t, "F7^3", &all_fp3::<F7x3>());
}

/// schoolbook product in F_p[X]/(X^k - beta) on coefficient vectors
fn schoolbook<F: PrimeField>(a: &[F], b: &[F], beta: F) -> Vec<F> {
    let k = a.len();
    let mut r = vec![F::zero(); k];
    for i in 0..k { for j in 0..k {
        let prod = a[i] * b[j];
        if i + j < k { r[i + j] += prod; } else { r[i + j - k] += prod * beta; }
    } }
    r
}
fn ext_checks<E: Field + CyclotomicMultSubgroup, F: PrimeField>(t: &mut Tally, name: &str, els: &[E], coords: impl Fn(&E) -> Vec<F>, beta: F, p: u64, all_pairs: bool) {
    let k = coords(&els[0]).len();
    let q = (p as u128).pow(k as u32);
    for (i, a) in els.iter().enumerate() {
        let ca = coords(a);
        // zero/one predicates agree with comparison against the constants (C19)
        let (z, o) = (ca.iter().all(|c| val(c) == 0), val(&ca[0]) == 1 % p && ca[1..].iter().all(|c| val(c) == 0));
        t.check(a.is_zero() == z && (*a == E::ZERO) == z && (*a == E::zero()) == z, || format!("{name}: is_zero / == ZERO on {a}"));
        t.check(a.is_one() == o && (*a == E::ONE) == o && (*a == E::one()) == o, || format!("{name}: is_one / == ONE on {a}"));
        t.check(coords(&a.square()) == schoolbook(&ca, &ca, beta), || format!("{name}: ({a})^2"));
        match a.inverse() {
            None => t.check(a.is_zero(), || format!("{name}: inverse({a}) = None")),
            Some(x) => t.check(!a.is_zero() && (x * a).is_one(), || format!("{name}: inverse({a})")),
        }
        for kk in 0..(2 * k + 1) {
            let mut f = *a;
            f.frobenius_map_in_place(kk);
            let mut e = *a;
            for _ in 0..kk { e = e.pow([p]); }
            t.check(f == e, || format!("{name}: frobenius({a}, {kk})"));
        }
        // cyclotomic subgroup: elements x^((q-1)/Phi) ... here: y = a^(q-1 / (p^(k/?)...)); use y = a^(p^(k-1)...): simply test on all elements of norm one w.r.t. the fast inverse
        if !a.is_zero() {
            let mut y = *a;
            // project into the cyclotomic subgroup of order Phi_k(p): y = a^((q-1)/Phi_k(p)); for k = 2: a^(p-1); for k = 3: a^(p-1)
            y = y.pow([p - 1]);
            let mut inv = y;
            if inv.cyclotomic_inverse_in_place().is_some() {
                t.check(inv * y == E::one() || !E::INVERSE_IS_FAST, || format!("{name}: cyclotomic_inverse({y})"));
            }
            t.check(y.cyclotomic_square() == y.square(), || format!("{name}: cyclotomic_square({y})"));
            t.check(y.cyclotomic_exp([5u64, 0]) == y.pow([5u64]) && y.cyclotomic_exp([(q % (1 << 63)) as u64]) == y.pow([(q % (1 << 63)) as u64]), || format!("{name}: cyclotomic_exp({y})"));
        }
        let js: Vec<usize> = if all_pairs { (0..els.len()).collect() } else { (0..els.len()).filter(|j| (i * 31 + j * 17) % 23 == 0 || *j < 8).collect() };
        for j in js {
            let b = &els[j];
            let cb = coords(b);
            t.check(coords(&(*a * b)) == schoolbook(&ca, &cb, beta), || format!("{name}: ({a}) * ({b})"));
            let mut s = *a; s += b;
            t.check(coords(&s) == ca.iter().zip(&cb).map(|(x, y)| *x + y).collect::<Vec<_>>(), || format!("{name}: add"));
            t.check((*a == *b) == (ca == cb), || format!("{name}: eq"));
            // documented order: lexicographic from the highest coefficient
            let mut ra = ca.clone(); ra.reverse();
            let mut rb = cb.clone(); rb.reverse();
            t.check(a.cmp(b) == ra.cmp(&rb), || format!("{name}: cmp ({a}) ({b})"));
        }
    }
}

pub fn ext_all(t: &mut Tally, _seed: u64) {
    let e49 = all_fp2::<F7x2>();
    ext_checks::<F49, F7>(t, "F7^2(beta=-1)", &e49, |x| vec![x.c0, x.c1], -F7::one(), 7, true);
    for a in &e49 { let n = a.norm(); t.check(n == a.c0.square() + a.c1.square(), || format!("F7^2 norm({a})")); }
    let e169 = all_fp2::<F13x2>();
    ext_checks::<F169, F13>(t, "F13^2(beta=2)", &e169, |x| vec![x.c0, x.c1], F13::from(2u64), 13, true);
    for a in &e169 { let n = a.norm(); t.check(n == a.c0.square() - a.c1.square().double(), || format!("F13^2 norm({a})")); }
    let e343 = all_fp3::<F7x3>();
    ext_checks::<F343, F7>(t, "F7^3(beta=2)", &e343, |x| vec![x.c0, x.c1, x.c2], F7::from(2u64), 7, false);
    for a in &e343 {
        let n = a.norm();
        let mut e = *a; e = e * a.pow([7u64]) * a.pow([49u64]);
        t.check(e.c1.is_zero() && e.c2.is_zero() && e.c0 == n, || format!("F7^3 norm({a})"));
    }
}
