//! C01 (generic field layer), C11 (square roots), C02 (toy towers): exhaustive over toy fields.
use super::{toy::*, Tally};
use crate::Rng;
use ark_ff::{batch_inversion_and_mul, AdditiveGroup, BigInteger, CyclotomicMultSubgroup, Field, LegendreSymbol, One, PrimeField, Zero};
use core::str::FromStr;

fn val<F: PrimeField>(x: &F) -> u64 { x.into_bigint().as_ref()[0] }
fn all<F: PrimeField>() -> Vec<F> {
    let p = F::MODULUS.as_ref()[0];
    (0..p).map(|i| F::from_bigint(F::BigInt::from(i)).unwrap()).collect()
}

fn prime_field_layer<F: PrimeField>(t: &mut Tally, name: &str, full_pairs: bool) {
    let p = F::MODULUS.as_ref()[0];
    let els = all::<F>();
    for (i, a) in els.iter().enumerate() {
        let i = i as u64;
        t.check(val(a) == i, || format!("{name}: into_bigint(from_bigint({i})) = {}", val(a)));
        t.check(val(&-*a) == (p - i) % p, || format!("{name}: neg {i}"));
        t.check(val(&a.double()) == (2 * i) % p, || format!("{name}: double {i}"));
        t.check(val(&a.square()) == (i * i) % p, || format!("{name}: square {i}"));
        t.check(a.is_zero() == (i == 0) && a.is_one() == (i == 1 % p), || format!("{name}: is_zero/is_one {i}"));
        match a.inverse() {
            None => t.check(i == 0, || format!("{name}: inverse({i}) = None")),
            Some(x) => t.check(i != 0 && (val(&x) * i) % p == 1, || format!("{name}: inverse({i}) = {}", val(&x))),
        }
        t.check(F::from_str(&format!("{i}")).ok() == Some(*a) && format!("{a}") == format!("{i}"), || format!("{name}: decimal round trip {i}"));
        t.check(F::from(i) == *a && F::from(i + p) == *a && F::from(i as u128 + 3 * p as u128) == *a, || format!("{name}: From<u64/u128> {i}"));
        t.check(F::from(-(i as i64)) == -*a && F::from(-(i as i128) - p as i128) == -*a, || format!("{name}: From<i64/i128> -{i}"));
        let js: Vec<usize> = if full_pairs { (0..els.len()).collect() } else { vec![0, 1, 2, (p / 2) as usize, (p - 2) as usize, (p - 1) as usize, (i as usize * 7 + 3) % p as usize] };
        for j in js {
            let b = els[j];
            let j = j as u64;
            t.check(val(&(*a + b)) == (i + j) % p, || format!("{name}: {i} + {j}"));
            t.check(val(&(*a - b)) == (i + p - j) % p, || format!("{name}: {i} - {j}"));
            t.check(val(&(*a * b)) == (i * j) % p, || format!("{name}: {i} * {j} = {}", val(&(*a * b))));
            t.check((*a < b) == (i < j) && (*a == b) == (i == j), || format!("{name}: cmp {i} {j}"));
            if j != 0 { t.check(val(&(*a / b)) * j % p == i, || format!("{name}: {i} / {j}")); }
            t.check(F::sum_of_products(&[*a, b], &[b, *a]) == (*a * b).double(), || format!("{name}: sum_of_products2 {i} {j}"));
        }
        // exponentiation
        let mut acc = F::one();
        for e in 0..(2 * p + 3).min(300) {
            t.check(a.pow([e]) == acc, || format!("{name}: {i}^{e}"));
            acc *= a;
        }
        t.check(a.pow([0u64, 0, 0]) == F::one(), || format!("{name}: {i}^0 with leading zero limbs"));
    }
    // legendre = Euler
    let squares: std::collections::HashSet<u64> = (0..p).map(|y| y * y % p).collect();
    for (i, a) in els.iter().enumerate() {
        let l = a.legendre();
        let e = if i == 0 { LegendreSymbol::Zero } else if squares.contains(&(i as u64)) { LegendreSymbol::QuadraticResidue } else { LegendreSymbol::QuadraticNonResidue };
        t.check(l == e, || format!("{name}: legendre {i}"));
    }
}

fn bytes_mod_order<F: PrimeField>(t: &mut Tally, name: &str, rng: &mut Rng) {
    let p = F::MODULUS.as_ref()[0] as u128;
    let mut test = |b: &[u8], t: &mut Tally| {
        let mut le: u128 = 0;
        for x in b.iter().rev() { le = (le * 256 + *x as u128) % p; }
        let mut be: u128 = 0;
        for x in b.iter() { be = (be * 256 + *x as u128) % p; }
        let r = std::panic::catch_unwind(|| (val(&F::from_le_bytes_mod_order(b)) as u128, val(&F::from_be_bytes_mod_order(b)) as u128));
        t.check(r.as_ref().ok() == Some(&(le, be)), || format!("{name}: from_bytes_mod_order({b:?}) = {r:?}, expected ({le},{be})"));
    };
    test(&[], t);
    for a in 0..=255u8 {
        test(&[a], t);
        for b in 0..=255u8 {
            test(&[a, b], t);
        }
    }
    for _ in 0..20000 {
        let n = 3 + (rng.next() % 4) as usize;
        let b: Vec<u8> = (0..n).map(|_| { let r = rng.next(); if r % 3 == 0 { 0xff } else { (r >> 8) as u8 } }).collect();
        test(&b, t);
    }
}

fn batch_inv<F: PrimeField>(t: &mut Tally, name: &str) {
    let els = all::<F>();
    let small: Vec<F> = els.iter().cloned().take(4).chain(els.iter().cloned().rev().take(2)).collect();
    for c in &small {
        for n in 0..4usize {
            // all vectors of length n over `small`
            let total = small.len().pow(n as u32);
            for code in 0..total {
                let mut v: Vec<F> = Vec::new();
                let mut k = code;
                for _ in 0..n { v.push(small[k % small.len()]); k /= small.len(); }
                let orig = v.clone();
                batch_inversion_and_mul(&mut v, c);
                let ok = orig.iter().zip(&v).all(|(o, r)| if o.is_zero() { r.is_zero() } else { *r * *o == *c });
                t.check(ok, || format!("{name}: batch_inversion_and_mul({:?}, {}) = {:?}", orig.iter().map(val).collect::<Vec<_>>(), val(c), v.iter().map(val).collect::<Vec<_>>()));
            }
        }
    }
    // sum_of_products for lengths 1..6 (the derive macro's generated code and its chunking)
    for n in 1..7usize {
        for code in 0..small.len().pow(2).min(36) {
            let a: Vec<F> = (0..n).map(|k| small[(code + k) % small.len()]).collect();
            let b: Vec<F> = (0..n).map(|k| small[(code / small.len() + 2 * k) % small.len()]).collect();
            let e: F = a.iter().zip(&b).map(|(x, y)| *x * y).sum();
            macro_rules! sop { ($m:literal) => { if n == $m { let aa: [F; $m] = a.clone().try_into().unwrap(); let bb: [F; $m] = b.clone().try_into().unwrap(); t.check(F::sum_of_products(&aa, &bb) == e, || format!("{name}: sum_of_products len {}", $m)); } }; }
            sop!(1); sop!(2); sop!(3); sop!(4); sop!(5); sop!(6);
        }
    }
}

pub fn field_layer(t: &mut Tally, seed: u64) {
    let mut rng = Rng(seed.wrapping_mul(0x9E3779B97F4A7C15) | 1);
    prime_field_layer::<F7>(t, "F7", true);
    prime_field_layer::<F13>(t, "F13", true);
    prime_field_layer::<F101>(t, "F101", true);
    prime_field_layer::<F251>(t, "F251", false);
    bytes_mod_order::<F101>(t, "F101", &mut rng);
    bytes_mod_order::<F251>(t, "F251", &mut rng);
    bytes_mod_order::<F65521>(t, "F65521", &mut rng);
    batch_inv::<F7>(t, "F7");
    batch_inv::<F101>(t, "F101");
    // compile-time construction = run-time construction (C20): literals through the MontFp! / BigInt! macros of the tree under
    // test (decimal with leading zeros, signs, hex / octal / binary prefixes, values >= p and >= 2p) and from_sign_and_limbs
    literals(t);
    for (p, name) in [(7u64, "F7"), (13, "F13"), (101, "F101"), (251, "F251")] { let _ = (p, name); }
    sign_and_limbs::<C7, 1>(t, "F7"); sign_and_limbs::<C13, 1>(t, "F13"); sign_and_limbs::<C101, 1>(t, "F101"); sign_and_limbs::<C251, 1>(t, "F251");
    sign_and_limbs::<CW2m127, 2>(t, "2^127-1"); sign_and_limbs::<CW2ns, 2>(t, "2^128-159"); sign_and_limbs::<CW4secp, 4>(t, "secp256k1 Fq");
    // constants the derive macro computes, on every toy and wide field (incl. two-adicity 65): equal to their definitions
    derived_consts::<F7>(t, "F7"); derived_consts::<F13>(t, "F13"); derived_consts::<F17>(t, "F17"); derived_consts::<F97>(t, "F97"); derived_consts::<F101>(t, "F101");
    derived_consts::<F251>(t, "F251"); derived_consts::<F65521>(t, "F65521"); derived_consts::<F65537>(t, "F65537"); derived_consts::<FT34>(t, "two-adicity 34");
    derived_consts::<FT47>(t, "two-adicity 47"); derived_consts::<W2t65>(t, "9*2^65+1 (two-adicity 65)"); derived_consts::<W2sp>(t, "W2sp"); derived_consts::<W2ns>(t, "2^128-159");
    derived_consts::<W2m127>(t, "2^127-1"); derived_consts::<W2s2>(t, "2^126-137"); derived_consts::<W3ns>(t, "2^192-237"); derived_consts::<W4fr>(t, "BLS12-381 Fr");
    derived_consts::<W4secp>(t, "secp256k1 Fq"); derived_consts::<W6fq>(t, "BLS12-381 Fq");
    // SAMPLED (not exhaustive): the generator's unrolled multi-limb code against integers
    multi_limb::<W2sp>(t, "derive N=2 spare bit", &mut rng);
    multi_limb::<W2ns>(t, "derive N=2 no spare bit", &mut rng);
    multi_limb::<W2s2>(t, "derive N=2 p=2^126-137 (two spare bits)", &mut rng);
    multi_limb::<W2m127>(t, "derive N=2 p=2^127-1", &mut rng);
    multi_limb::<W3ns>(t, "derive N=3 p=2^192-237", &mut rng);
    multi_limb::<W4fr>(t, "derive N=4 BLS12-381 Fr", &mut rng);
    multi_limb::<W4secp>(t, "derive N=4 secp256k1 Fq", &mut rng);
    multi_limb::<W6fq>(t, "derive N=6 BLS12-381 Fq", &mut rng);
    // hand-written configurations: the trait DEFAULT bodies (no generated override)
    multi_limb::<H1>(t, "trait defaults N=1 p=2^64-59", &mut rng);
    multi_limb::<H2ns>(t, "trait defaults N=2 no spare bit", &mut rng);
    multi_limb::<H2sp>(t, "trait defaults N=2 spare bit", &mut rng);
    multi_limb::<H2s2>(t, "trait defaults N=2 two spare bits", &mut rng);
    multi_limb::<H3ns>(t, "trait defaults N=3 p=2^192-237", &mut rng);
    multi_limb::<H4secp>(t, "trait defaults N=4 secp256k1 Fq", &mut rng);
}

/// structured operands (limbs from {0, 1, 2^63, 2^64-2, 2^64-1, ...} reduced mod p, values next to 0 and p, seeded random ones):
/// add, sub, neg, double, mul, square, inverse, sum_of_products, from/into_bigint against num-bigint
fn multi_limb<F: PrimeField>(t: &mut Tally, name: &str, rng: &mut Rng) {
    use num_bigint::BigUint;
    let p = BigUint::from_bytes_le(&F::MODULUS.to_bytes_le());
    let n = ((F::MODULUS_BIT_SIZE + 63) / 64) as usize;
    let big = |x: &F| BigUint::from_bytes_le(&x.into_bigint().to_bytes_le());
    let fe = |x: &BigUint| F::from_le_bytes_mod_order(&x.to_bytes_le());
    let limbs = |l: &[u64]| { let mut b = vec![]; for x in l { b.extend_from_slice(&x.to_le_bytes()); } BigUint::from_bytes_le(&b) % &p };
    let pool = [0u64, 1, 1 << 63, u64::MAX - 1, u64::MAX, 0x8000_0000_0000_0001, 0x7fff_ffff_ffff_ffff];
    let mut ops: Vec<BigUint> = vec![0u8.into(), 1u8.into(), 2u8.into(), &p - 1u8, &p - 2u8, (&p - 1u8) >> 1u32, ((&p - 1u8) >> 1u32) + 1u8];
    for &w in &pool { ops.push(limbs(&vec![w; n])); }
    for k in 0..n { let mut v = vec![0u64; n]; v[k] = u64::MAX; ops.push(limbs(&v)); v[k] = 1; ops.push(limbs(&v)); let mut w = vec![u64::MAX; n]; w[k] = 0; ops.push(limbs(&w)); }
    for _ in 0..60 { let v: Vec<u64> = (0..n).map(|_| { let r = rng.next(); if r % 3 == 0 { rng.next() } else { pool[(r % 7) as usize] } }).collect(); ops.push(limbs(&v)); }
    for (i, ia) in ops.iter().enumerate() {
        let a = fe(ia);
        t.check(big(&a) == *ia, || format!("{name}: from_le_bytes_mod_order({ia}) reads back {}", big(&a)));
        t.check(big(&a.square()) == (ia * ia) % &p, || format!("{name}: ({ia})^2"));
        t.check(big(&a.double()) == (ia * 2u8) % &p && big(&(-a)) == (&p - ia) % &p, || format!("{name}: double / neg of {ia}"));
        match a.inverse() { Some(inv) => t.check((inv * a).is_one(), || format!("{name}: inverse({ia})")), None => t.check(a.is_zero(), || format!("{name}: inverse({ia}) = None")) }
        for d in 0..16usize {
            let ib = &ops[(i + d * 7 + 1) % ops.len()];
            let b = fe(ib);
            t.check(big(&(a * b)) == (ia * ib) % &p, || format!("{name}: {ia} * {ib}"));
            t.check(big(&(a + b)) == (ia + ib) % &p && big(&(a - b)) == (ia + &p - ib) % &p, || format!("{name}: {ia} +/- {ib}"));
            let ic = &ops[(i + d * 11 + 3) % ops.len()];
            let c = fe(ic);
            t.check(big(&F::sum_of_products(&[a, b, c], &[b, c, a])) == (ia * ib + ib * ic + ic * ia) % &p, || format!("{name}: sum_of_products over {ia}, {ib}, {ic}"));
        }
    }
    // inner products of every length 1..=9 on operands whose Montgomery representation is near p (the batching bound of the
    // generated sum_of_products depends on the number of spare bits): x with x*R near p, i.e. x = (p - d) * R^{-1}
    let r_inv = fe(&(BigUint::from(1u8) << (64 * n))).inverse().unwrap();
    let near: Vec<F> = (1..=12u32).map(|d| fe(&(&p - d)) * r_inv).chain([fe(&(&p - 1u8)), fe(&((&p - 1u8) >> 1u32))]).collect();
    macro_rules! sop { ($m:literal) => {{
        for s in 0..near.len() {
            let a: [F; $m] = core::array::from_fn(|k| near[(s + k) % near.len()]);
            let b: [F; $m] = core::array::from_fn(|k| near[(s + 2 * k + 1) % near.len()]);
            let e = a.iter().zip(&b).fold(BigUint::from(0u8), |acc, (x, y)| (acc + big(x) * big(y)) % &p);
            let got = F::sum_of_products(&a, &b);
            t.check(big(&got) == e && got == fe(&e), || format!("{name}: sum_of_products of length {} on near-modulus operands (start {s})", $m));
        }
    }}; }
    sop!(1); sop!(2); sop!(3); sop!(4); sop!(5); sop!(6); sop!(7); sop!(8); sop!(9);
}

fn sqrt_prime<F: PrimeField>(t: &mut Tally, name: &str) {
    let p = F::MODULUS.as_ref()[0];
    let squares: std::collections::HashSet<u64> = (0..p).map(|y| y * y % p).collect();
    for (i, a) in all::<F>().iter().enumerate() {
        let i = i as u64;
        match a.sqrt() {
            Some(r) => t.check(squares.contains(&i) && r.square() == *a, || format!("{name}: sqrt({i}) = {}", val(&r))),
            None => t.check(!squares.contains(&i), || format!("{name}: sqrt({i}) = None but it is a square")),
        }
        if i == 0 { t.check(a.sqrt() == Some(F::zero()), || format!("{name}: sqrt(0)")); }
    }
}
fn sqrt_ext<E: Field>(t: &mut Tally, name: &str, els: &[E]) {
    let squares: std::collections::HashSet<String> = els.iter().map(|y| format!("{}", y.square())).collect();
    for a in els {
        let is_sq = squares.contains(&format!("{a}"));
        let r = std::panic::catch_unwind(std::panic::AssertUnwindSafe(|| a.sqrt()));
        match r {
            Ok(Some(r)) => t.check(is_sq && r.square() == *a, || format!("{name}: sqrt({a}) = {r}")),
            Ok(None) => t.check(!is_sq, || format!("{name}: sqrt({a}) = None but it is a square")),
            Err(_) => t.check(false, || format!("{name}: sqrt({a}) panicked")),
        }
        let l = a.legendre();
        t.check(l.is_zero() == a.is_zero() && l.is_qr() == (is_sq && !a.is_zero()), || format!("{name}: legendre({a})"));
    }
}
fn all_fp2<P: ark_ff::Fp2Config>() -> Vec<ark_ff::Fp2<P>> where P::Fp: PrimeField {
    let b = all::<P::Fp>();
    let mut v = vec![];
    for c1 in &b { for c0 in &b { v.push(ark_ff::Fp2::<P>::new(*c0, *c1)); } }
    v
}
fn all_fp3<P: ark_ff::Fp3Config>() -> Vec<ark_ff::Fp3<P>> where P::Fp: PrimeField {
    let b = all::<P::Fp>();
    let mut v = vec![];
    for c2 in &b { for c1 in &b { for c0 in &b { v.push(ark_ff::Fp3::<P>::new(*c0, *c1, *c2)); } } }
    v
}

pub fn sqrt_all(t: &mut Tally) {
    sqrt_prime::<F7>(t, "F7");
    sqrt_prime::<F13>(t, "F13");
    sqrt_prime::<F17>(t, "F17");
    sqrt_prime::<F97>(t, "F97");
    sqrt_prime::<F101>(t, "F101");
    sqrt_prime::<F251>(t, "F251");
    sqrt_prime::<F65521>(t, "F65521");
    sqrt_ext(t, "F7^2", &all_fp2::<F7x2>());
    sqrt_ext(t, "F13^2", &all_fp2::<F13x2>());
    sqrt_ext(t, "F7^3", &all_fp3::<F7x3>());
    sqrt_high_adicity::<FT34>(t, "p = 9223373256625487873 (two-adicity 34)");
    sqrt_high_adicity::<FT40>(t, "p = 9223423713901281281 (two-adicity 40)");
    sqrt_high_adicity::<FT47>(t, "p = 9229142273877344257 (two-adicity 47)");
}

/// SAMPLED (the fields have ~2^63 elements): the elements that drive Tonelli-Shanks through every loop depth -- all 2^k-th roots
/// of unity (k = 0..s) and their products with small squares / non-squares -- plus 0, 1, -1, small integers
fn sqrt_high_adicity<F: PrimeField>(t: &mut Tally, name: &str) {
    let s = F::TWO_ADICITY;
    let mut els: Vec<F> = vec![F::zero(), F::one(), -F::one()];
    let mut w = F::TWO_ADIC_ROOT_OF_UNITY;
    for _ in 0..=s { els.push(w); els.push(w * F::from(4u64)); els.push(w * F::from(9u64)); els.push(w * F::GENERATOR); w.square_in_place(); }
    for k in 2..60u64 { els.push(F::from(k)); els.push(F::from(k).square()); }
    let half = F::MODULUS_MINUS_ONE_DIV_TWO;
    for a in &els {
        let euler = a.pow(half);
        let is_sq = a.is_zero() || euler.is_one();
        match a.sqrt() {
            Some(r) => t.check(is_sq && r.square() == *a, || format!("{name}: sqrt({a}) = {r} (square by Euler: {is_sq})")),
            None => t.check(!is_sq, || format!("{name}: sqrt({a}) = None although {a} is a square")),
        }
        let l = a.legendre();
        t.check(l.is_zero() == a.is_zero() && l.is_qr() == (is_sq && !a.is_zero()), || format!("{name}: legendre({a})"));
    }
}

/// schoolbook product in F_p[X]/(X^k - beta) on coefficient vectors
fn schoolbook<F: PrimeField>(a: &[F], b: &[F], beta: F) -> Vec<F> {
    let k = a.len();
    let mut r = vec![F::zero(); k];
    for i in 0..k { for j in 0..k {
        let prod = a[i] * b[j];
        if i + j < k { r[i + j] += prod; } else { r[i + j - k] += prod * beta; }
    } }
    r
}
fn ext_checks<E: Field + CyclotomicMultSubgroup, F: PrimeField>(t: &mut Tally, name: &str, els: &[E], coords: impl Fn(&E) -> Vec<F>, beta: F, p: u64, all_pairs: bool) {
    ext_checks_with(t, name, els, &coords, beta, p, all_pairs, p - 1, &|e: &E| { let mut v = coords(e); v.reverse(); v })
}

/// `proj_exp`: exponent projecting onto the cyclotomic subgroup; `ord_coords`: coordinates in the order the documented
/// lexicographic comparison looks at them (most significant first)
fn ext_checks_with<E: Field + CyclotomicMultSubgroup, F: PrimeField>(t: &mut Tally, name: &str, els: &[E], coords: &dyn Fn(&E) -> Vec<F>, beta: F, p: u64, all_pairs: bool, proj_exp: u64, ord_coords: &dyn Fn(&E) -> Vec<F>) {
    let k = coords(&els[0]).len();
    let q = (p as u128).pow(k as u32);
    for (i, a) in els.iter().enumerate() {
        let ca = coords(a);
        // zero/one predicates agree with comparison against the constants (C19)
        let (z, o) = (ca.iter().all(|c| val(c) == 0), val(&ca[0]) == 1 % p && ca[1..].iter().all(|c| val(c) == 0));
        t.check(a.is_zero() == z && (*a == E::ZERO) == z && (*a == E::zero()) == z, || format!("{name}: is_zero / == ZERO on {a}"));
        t.check(a.is_one() == o && (*a == E::ONE) == o && (*a == E::one()) == o, || format!("{name}: is_one / == ONE on {a}"));
        t.check(coords(&a.square()) == schoolbook(&ca, &ca, beta), || format!("{name}: ({a})^2"));
        match a.inverse() {
            None => t.check(a.is_zero(), || format!("{name}: inverse({a}) = None")),
            Some(x) => t.check(!a.is_zero() && (x * a).is_one(), || format!("{name}: inverse({a})")),
        }
        for kk in 0..(2 * k + 1) {
            let mut f = *a;
            f.frobenius_map_in_place(kk);
            let mut e = *a;
            for _ in 0..kk { e = e.pow([p]); }
            t.check(f == e, || format!("{name}: frobenius({a}, {kk})"));
        }
        // cyclotomic subgroup: elements x^((q-1)/Phi) ... here: y = a^(q-1 / (p^(k/?)...)); use y = a^(p^(k-1)...): simply test on all elements of norm one w.r.t. the fast inverse
        if !a.is_zero() {
            let mut y = *a;
            // project into the cyclotomic subgroup of order Phi_k(p): y = a^((q-1)/Phi_k(p)); for k = 2: a^(p-1); for k = 3: a^(p-1)
            y = y.pow([proj_exp]);
            let mut inv = y;
            if inv.cyclotomic_inverse_in_place().is_some() {
                t.check(inv * y == E::one() || !E::INVERSE_IS_FAST, || format!("{name}: cyclotomic_inverse({y})"));
            }
            t.check(y.cyclotomic_square() == y.square(), || format!("{name}: cyclotomic_square({y})"));
            t.check(y.cyclotomic_exp([5u64, 0]) == y.pow([5u64]) && y.cyclotomic_exp([(q % (1 << 63)) as u64]) == y.pow([(q % (1 << 63)) as u64]), || format!("{name}: cyclotomic_exp({y})"));
        }
        let js: Vec<usize> = if all_pairs { (0..els.len()).collect() } else { (0..els.len()).filter(|j| (i * 31 + j * 17) % 23 == 0 || *j < 8).collect() };
        for j in js {
            let b = &els[j];
            let cb = coords(b);
            t.check(coords(&(*a * b)) == schoolbook(&ca, &cb, beta), || format!("{name}: ({a}) * ({b})"));
            let mut s = *a; s += b;
            t.check(coords(&s) == ca.iter().zip(&cb).map(|(x, y)| *x + y).collect::<Vec<_>>(), || format!("{name}: add"));
            t.check((*a == *b) == (ca == cb), || format!("{name}: eq"));
            // documented order: lexicographic from the highest coefficient
            let (ra, rb) = (ord_coords(a), ord_coords(b));
            t.check(a.cmp(b) == ra.cmp(&rb), || format!("{name}: cmp ({a}) ({b})"));
        }
    }
}

pub fn ext_all(t: &mut Tally, _seed: u64) {
    let e49 = all_fp2::<F7x2>();
    ext_checks::<F49, F7>(t, "F7^2(beta=-1)", &e49, |x| vec![x.c0, x.c1], -F7::one(), 7, true);
    for a in &e49 { let n = a.norm(); t.check(n == a.c0.square() + a.c1.square(), || format!("F7^2 norm({a})")); }
    let e169 = all_fp2::<F13x2>();
    ext_checks::<F169, F13>(t, "F13^2(beta=2)", &e169, |x| vec![x.c0, x.c1], F13::from(2u64), 13, true);
    for a in &e169 { let n = a.norm(); t.check(n == a.c0.square() - a.c1.square().double(), || format!("F13^2 norm({a})")); }
    let e343 = all_fp3::<F7x3>();
    ext_checks::<F343, F7>(t, "F7^3(beta=2)", &e343, |x| vec![x.c0, x.c1, x.c2], F7::from(2u64), 7, false);
    for a in &e343 {
        let n = a.norm();
        let mut e = *a; e = e * a.pow([7u64]) * a.pow([49u64]);
        t.check(e.c1.is_zero() && e.c2.is_zero() && e.c0 == n, || format!("F7^3 norm({a})"));
    }
    // degree-4 tower F_241[u]/(u^2 - 7)[w]/(w^2 - u) = F_241[w]/(w^4 - 7) (the Fp4 template): 241^4 elements, so a structured
    // SAMPLE: basis elements, sparse elements, and seeded ones; coordinates by powers of w are (c0.c0, c1.c0, c0.c1, c1.c1)
    {
        use super::toy::mnt4a::{Fq, Fq2, Fq4};
        let mut rng = crate::Rng(_seed.wrapping_mul(0x9E3779B97F4A7C15) | 1);
        let f = |a: u64, b: u64, c: u64, d: u64| Fq4::new(Fq2::new(Fq::from(a), Fq::from(c)), Fq2::new(Fq::from(b), Fq::from(d)));
        let mut els = vec![f(0, 0, 0, 0), f(1, 0, 0, 0), f(0, 1, 0, 0), f(0, 0, 1, 0), f(0, 0, 0, 1), f(240, 0, 0, 0), f(1, 1, 1, 1), f(5, 0, 7, 0), f(0, 3, 0, 9)];
        for _ in 0..400 { els.push(f(rng.next() % 241, rng.next() % 241, rng.next() % 241, rng.next() % 241)); }
        ext_checks_with::<Fq4, Fq>(t, "F241^4(Fp4 template)", &els, &|x| vec![x.c0.c0, x.c1.c0, x.c0.c1, x.c1.c1], Fq::from(7u64), 241, false, 241 * 241 - 1,
            &|x| vec![x.c1.c1, x.c1.c0, x.c0.c1, x.c0.c0]);

        // cubic template over a larger prime and the Fp6 = Fp3[w]/(w^2 - u) template (both from the toy MNT6 curve): sampled
        use super::toy::mnt6a;
        let g3 = |a: u64, b: u64, c: u64| mnt6a::Fq3::new(mnt6a::Fq::from(a), mnt6a::Fq::from(b), mnt6a::Fq::from(c));
        let mut e3 = vec![g3(0, 0, 0), g3(1, 0, 0), g3(0, 1, 0), g3(0, 0, 1), g3(570, 0, 0), g3(1, 1, 1), g3(5, 0, 7)];
        for _ in 0..300 { e3.push(g3(rng.next() % 571, rng.next() % 571, rng.next() % 571)); }
        ext_checks::<mnt6a::Fq3, mnt6a::Fq>(t, "F571^3(beta=2)", &e3, |x| vec![x.c0, x.c1, x.c2], mnt6a::Fq::from(2u64), 571, false);
        let mut e6 = vec![];
        for k in 0..7usize { let mut c = [0u64; 6]; if k < 6 { c[k] = 1; } e6.push(mnt6a::Fq6::new(g3(c[0], c[2], c[4]), g3(c[1], c[3], c[5]))); }
        for _ in 0..300 { e6.push(mnt6a::Fq6::new(g3(rng.next() % 571, rng.next() % 571, rng.next() % 571), g3(rng.next() % 571, rng.next() % 571, rng.next() % 571))); }
        ext_checks_with::<mnt6a::Fq6, mnt6a::Fq>(t, "F571^6(Fp6 2-over-3 template)", &e6, &|x| vec![x.c0.c0, x.c1.c0, x.c0.c1, x.c1.c1, x.c0.c2, x.c1.c2], mnt6a::Fq::from(2u64), 571, false,
            (571u64 * 571 * 571 - 1) * 572, &|x| vec![x.c1.c2, x.c1.c1, x.c1.c0, x.c0.c2, x.c0.c1, x.c0.c0]);
    }
}


/// literals: what the macros compute at compile time against run-time arithmetic
fn literals(t: &mut Tally) {
    use ark_ff::{BigInt, MontFp};
    let f = |x: u64| F101::from(x);
    let cases: Vec<(&str, F101, F101)> = vec![
        ("17", MontFp!("17"), f(17)), ("017", MontFp!("017"), f(17)), ("0017", MontFp!("0017"), f(17)), ("010", MontFp!("010"), f(10)), ("0", MontFp!("0"), f(0)),
        ("00", MontFp!("00"), f(0)), ("-0", MontFp!("-0"), f(0)), ("-1", MontFp!("-1"), -f(1)), ("-0010", MontFp!("-0010"), -f(10)), ("100", MontFp!("100"), f(100)),
        ("101", MontFp!("101"), f(0)), ("102", MontFp!("102"), f(1)), ("-101", MontFp!("-101"), f(0)), ("-102", MontFp!("-102"), -f(1)), ("-120", MontFp!("-120"), -f(19)),
        ("203", MontFp!("203"), f(1)), ("-205", MontFp!("-205"), -f(3)), ("0x11", MontFp!("0x11"), f(17)), ("0X11", MontFp!("0X11"), f(17)), ("-0x11", MontFp!("-0x11"), -f(17)),
        ("0o21", MontFp!("0o21"), f(17)), ("0b10001", MontFp!("0b10001"), f(17)), ("18446744073709551615", MontFp!("18446744073709551615"), f(u64::MAX)),
        ("0x00000011", MontFp!("0x00000011"), f(17)),
    ];
    for (lit, got, want) in cases {
        t.check(got == want, || format!("F101: MontFp!(\"{lit}\") = {got}, run-time value {want}"));
    }
    let w = |x: u128| W2m127::from(x);
    let wide: Vec<(&str, W2m127, W2m127)> = vec![
        ("2^127-1", MontFp!("170141183460469231731687303715884105727"), w(0)), ("2^127", MontFp!("170141183460469231731687303715884105728"), w(1)),
        ("-(p+5)", MontFp!("-170141183460469231731687303715884105732"), -w(5)), ("2^64", MontFp!("18446744073709551616"), w(1 << 64)),
        ("0x1_0000000000000000 written plainly", MontFp!("0x10000000000000000"), w(1 << 64)), ("-(2p+1) = -(2^128-1)", MontFp!("-340282366920938463463374607431768211455"), -w(1)),
        ("leading zeros, 22222222222222222222", MontFp!("00022222222222222222222"), w(22222222222222222222u128)),
    ];
    for (lit, got, want) in wide {
        t.check(got == want, || format!("2^127-1: literal {lit} = {got}, run-time value {want}"));
    }
    let b: Vec<(&str, BigInt<2>, [u64; 2])> = vec![
        ("10", BigInt!("10"), [10, 0]), ("010", BigInt!("010"), [10, 0]), ("0x10", BigInt!("0x10"), [16, 0]), ("0o10", BigInt!("0o10"), [8, 0]), ("0b10", BigInt!("0b10"), [2, 0]),
        ("18446744073709551616", BigInt!("18446744073709551616"), [0, 1]), ("0022222222222222222222", BigInt!("0022222222222222222222"), [3775478148512670606, 1]), ("0", BigInt!("0"), [0, 0]),
    ];
    for (lit, got, want) in b {
        t.check(got.0 == want, || format!("BigInt!(\"{lit}\") = {:?}, expected {:?}", got.0, want));
    }
}

/// from_sign_and_limbs (the run-time entry of negative literals): +-x mod p for limb patterns below, at and above p
fn sign_and_limbs<C: ark_ff::MontConfig<N>, const N: usize>(t: &mut Tally, name: &str) {
    use num_bigint::BigUint;
    type Fe<C, const N: usize> = ark_ff::Fp<ark_ff::MontBackend<C, N>, N>;
    let p = BigUint::from_bytes_le(&<Fe<C, N> as PrimeField>::MODULUS.to_bytes_le());
    let big = |x: &Fe<C, N>| BigUint::from_bytes_le(&x.into_bigint().to_bytes_le());
    let mut vals: Vec<BigUint> = (0u32..40).map(BigUint::from).collect();
    for d in 0u32..4 { vals.push(&p - d.min(1) * 0u32 + d); if p > BigUint::from(d) { vals.push(&p - d); } vals.push(&p * 2u32 + d); }
    vals.push((BigUint::from(1u8) << (64 * N)) - 1u8);
    vals.push(BigUint::from(1u8) << (64 * N - 1));
    for v in vals.iter().filter(|v| v.bits() as usize <= 64 * N) {
        let mut limbs = v.to_u64_digits();
        if limbs.is_empty() { limbs.push(0); }
        let pos = Fe::<C, N>::from_sign_and_limbs(true, &limbs);
        let neg = Fe::<C, N>::from_sign_and_limbs(false, &limbs);
        let r = v % &p;
        t.check(big(&pos) == r, || format!("{name}: from_sign_and_limbs(+, {v}) = {}", big(&pos)));
        t.check(big(&neg) == (&p - &r) % &p && (neg + pos).is_zero(), || format!("{name}: from_sign_and_limbs(-, {v}) = {}", big(&neg)));
    }
}

/// the constants of a derived configuration equal their definitions
fn derived_consts<F: PrimeField>(t: &mut Tally, name: &str) {
    use num_bigint::BigUint;
    let p = BigUint::from_bytes_le(&F::MODULUS.to_bytes_le());
    let pm1 = &p - 1u8;
    let s = pm1.trailing_zeros().unwrap();
    let tr = &pm1 >> s;
    let lb = |l: &[u64]| { let mut b = vec![]; for x in l { b.extend_from_slice(&x.to_le_bytes()); } BigUint::from_bytes_le(&b) };
    t.check(F::TWO_ADICITY as u64 == s, || format!("{name}: TWO_ADICITY = {} but v2(p-1) = {s}", F::TWO_ADICITY));
    t.check(lb(F::TRACE.as_ref()) == tr && lb(F::TRACE_MINUS_ONE_DIV_TWO.as_ref()) == (&tr - 1u8) >> 1u32, || format!("{name}: TRACE constants"));
    t.check(lb(F::MODULUS_MINUS_ONE_DIV_TWO.as_ref()) == &pm1 >> 1u32 && F::MODULUS_BIT_SIZE as u64 == p.bits(), || format!("{name}: (p-1)/2 or bit size"));
    let w = F::TWO_ADIC_ROOT_OF_UNITY;
    t.check(w == F::GENERATOR.pow(tr.to_u64_digits()), || format!("{name}: TWO_ADIC_ROOT_OF_UNITY != GENERATOR^TRACE"));
    let mut x = w;
    for _ in 1..s { x.square_in_place(); }
    t.check(x == -F::one(), || format!("{name}: TWO_ADIC_ROOT_OF_UNITY does not have order 2^{s}"));
    t.check(F::ONE.into_bigint() == F::BigInt::from(1u64) && F::ZERO.is_zero(), || format!("{name}: ONE / ZERO"));
}
