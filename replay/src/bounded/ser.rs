//! Bounded stand-in for C18 on the container types Kani cannot digest (heap-heavy: BTreeMap/Set, LinkedList, VecDeque,
//! String, BigUint, Rc/Arc/Cow, the mode-pinning wrappers, nested containers, derive structs holding containers).
//! For every listed value, in both Compress modes and both Validate modes:
//!   * serialized_size == bytes written; writing into a buffer of exactly that size succeeds, one byte less fails
//!   * deserialize(serialize(v)) == v and consumes exactly the written bytes
//!   * EVERY strict prefix of the encoding is rejected with Err (no panic)
//!   * every single-byte corruption (each position x {0, 1, 2, 0x7f, 0x80, 0xff, b^1}) returns Ok or Err without panic and
//!     without any single allocation above ALLOC_LIMIT
//! plus hand-made malformed inputs: oversized length prefixes (len+1, 2^32, 2^63, u64::MAX) on every sequence type, invalid
//! booleans in Option tags, invalid UTF-8 in String.
use super::Tally;
use ark_serialize::*;
use num_bigint::BigUint;
use std::borrow::Cow;
use std::collections::{BTreeMap, BTreeSet, LinkedList, VecDeque};
use std::fmt::Debug;
use std::rc::Rc;
use std::sync::Arc;

/// no single allocation while decoding a short malformed input may exceed this (inputs here are < 64 KiB)
const ALLOC_LIMIT: usize = 1 << 22;

fn peak_reset() { crate::alloc_probe::reset() }
fn peak() -> usize { crate::alloc_probe::peak() }

fn de<T: CanonicalDeserialize>(b: &[u8], c: Compress, v: Validate) -> (Result<T, SerializationError>, usize) {
    let mut r: &[u8] = b;
    let res = T::deserialize_with_mode(&mut r, c, v);
    (res, b.len() - r.len())
}

fn chk<T>(t: &mut Tally, name: &str, v: &T)
where
    T: CanonicalSerialize + CanonicalDeserialize + PartialEq + Debug,
{
    for c in [Compress::Yes, Compress::No] {
        let cs = if c == Compress::Yes { "compressed" } else { "uncompressed" };
        let mut bytes = vec![];
        let r = v.serialize_with_mode(&mut bytes, c);
        t.check(r.is_ok(), || format!("{name}: serialize {v:?} {cs} failed"));
        let size = v.serialized_size(c);
        t.check(size == bytes.len(), || format!("{name}: serialized_size({cs}) = {size} but {} bytes written for {v:?}", bytes.len()));
        // exact-size buffer succeeds; one byte short fails
        let mut exact = vec![0u8; size];
        let ok = v.serialize_with_mode(&mut exact[..], c).is_ok();
        t.check(ok && exact == bytes, || format!("{name}: writing {v:?} into a buffer of serialized_size bytes fails or differs"));
        if !bytes.is_empty() {
            let mut short = vec![0u8; bytes.len() - 1];
            t.check(v.serialize_with_mode(&mut short[..], c).is_err(), || format!("{name}: writing {v:?} into a too-short buffer succeeded"));
        }
        for val in [Validate::Yes, Validate::No] {
            let vs = if val == Validate::Yes { "checked" } else { "unchecked" };
            let (r, used) = de::<T>(&bytes, c, val);
            t.check(matches!(&r, Ok(w) if w == v) && used == bytes.len(), || format!("{name}: round trip {v:?} {cs} {vs} -> {r:?} (consumed {used} of {})", bytes.len()));
            // with trailing garbage the same value and the same consumption
            let mut ext = bytes.clone();
            ext.extend_from_slice(&[0xAB, 0xCD]);
            let (r, used) = de::<T>(&ext, c, val);
            t.check(matches!(&r, Ok(w) if w == v) && used == bytes.len(), || format!("{name}: {v:?} followed by trailing bytes reads past its size"));
            // every strict prefix is rejected, without panic
            for k in 0..bytes.len() {
                let pre = bytes[..k].to_vec();
                let out = t.no_panic(std::panic::AssertUnwindSafe(move || de::<T>(&pre, c, val).0.is_err()), || format!("{name}: truncation to {k} bytes of {v:?}"));
                if let Some(e) = out {
                    t.check(e, || format!("{name}: truncation of {v:?} to {k} of {} bytes accepted ({cs} {vs})", bytes.len()));
                }
            }
        }
        // single-byte corruptions: no panic, no huge allocation; if accepted, the accepted value re-serializes at its reported size
        { let d: String = format!("{v:?}").chars().take(80).collect(); eprintln!("@@CASE {name}: single-byte corruption of the {cs} encoding of {d}"); }
        let stride = if bytes.len() > 600 { bytes.len() / 300 } else { 1 };
        let mut i = 0;
        while i < bytes.len() {
            for nb in [0u8, 1, 2, 0x7f, 0x80, 0xff, bytes[i] ^ 1] {
                if nb == bytes[i] { continue; }
                let mut m = bytes.clone();
                m[i] = nb;
                peak_reset();
                let mm = m.clone();
                let out = t.no_panic(std::panic::AssertUnwindSafe(move || de::<T>(&mm, c, Validate::Yes).0), || format!("{name}: corrupt byte {i}:={nb:#x} of {v:?} {cs}"));
                let pk = peak();
                t.check(pk <= ALLOC_LIMIT, || format!("{name}: corrupt byte {i}:={nb:#x} of {v:?}: single allocation of {pk} bytes"));
                if let Some(Ok(w)) = out {
                    let mut b2 = vec![];
                    let ok = w.serialize_with_mode(&mut b2, c).is_ok() && b2.len() == w.serialized_size(c);
                    t.check(ok, || format!("{name}: value decoded from corrupted bytes has inconsistent size"));
                    let (r2, _) = de::<T>(&b2, c, Validate::Yes);
                    t.check(matches!(&r2, Ok(w2) if *w2 == w), || format!("{name}: value decoded from corrupted bytes does not round trip"));
                }
            }
            i += stride;
        }
    }
}

/// `prefix` is a length prefix, `body` what follows: must give Err, no panic, no large allocation
fn malformed<T: CanonicalDeserialize + Debug>(t: &mut Tally, name: &str, bytes: Vec<u8>) {
    for c in [Compress::Yes, Compress::No] {
        let cs = if c == Compress::Yes { "compressed" } else { "uncompressed" };
        for val in [Validate::Yes, Validate::No] {
            let vs = if val == Validate::Yes { "checked" } else { "unchecked" };
            peak_reset();
            let b = bytes.clone();
            // announced on stderr: if the library aborts the process here (allocation failure), the driver reports this case
            eprintln!("@@CASE {name}: malformed input {:?} ({cs} {vs})", &bytes[..bytes.len().min(24)]);
            let out = t.no_panic(std::panic::AssertUnwindSafe(move || de::<T>(&b, c, val).0.map(|_| ())), || format!("{name}: malformed input {:?}", &bytes[..bytes.len().min(24)]));
            let pk = peak();
            t.check(pk <= ALLOC_LIMIT, || format!("{name}: malformed input {:?}..: single allocation of {pk} bytes", &bytes[..bytes.len().min(24)]));
            if let Some(r) = out {
                t.check(r.is_err(), || format!("{name}: malformed input {:?}.. accepted ({cs} {vs})", &bytes[..bytes.len().min(24)]));
            }
        }
    }
}

fn oversized<T: CanonicalDeserialize + Debug>(t: &mut Tally, name: &str, elem_bytes: &[u8], present: usize) {
    // `present` well-formed elements follow a length prefix that promises more
    for claimed in [present as u64 + 1, present as u64 + 1000, 1 << 20, 1 << 32, 1 << 40, 1 << 63, u64::MAX, u64::MAX - 1, (1 << 61) + 1] {
        let mut b = claimed.to_le_bytes().to_vec();
        for _ in 0..present { b.extend_from_slice(elem_bytes); }
        malformed::<T>(t, name, b);
    }
}

#[derive(CanonicalSerialize, CanonicalDeserialize, PartialEq, Debug, Clone)]
struct Named { a: u8, b: Vec<u16>, c: Option<(bool, u32)>, d: String }
#[derive(CanonicalSerialize, CanonicalDeserialize, PartialEq, Debug, Clone)]
struct Tup(u64, BTreeMap<u8, Vec<u8>>, (u8, (u16, bool)), [Option<u8>; 3]);
#[derive(CanonicalSerialize, CanonicalDeserialize, PartialEq, Debug, Clone)]
struct Nested { x: (Named, (Tup, u8)), y: Vec<Named>, z: () }
#[derive(CanonicalSerialize, CanonicalDeserialize, PartialEq, Debug, Clone)]
struct Gen<T: CanonicalSerialize + CanonicalDeserialize> { t: T, v: Vec<T> }
#[derive(CanonicalSerialize, CanonicalDeserialize, PartialEq, Debug, Clone)]
struct Unit;

/// An element type with a non-trivial validity predicate and a mode-dependent size: the value is one byte when compressed and
/// two (value, !value) when uncompressed; it is valid iff it is even.  It follows the library protocol (read, then `check()`
/// when `Validate::Yes`).  Containers of `Ev` show whether Compress and Validate are forwarded to every element.
#[derive(Clone, Copy, PartialEq, Eq, PartialOrd, Ord, Debug, Hash)]
struct Ev(u8);
impl CanonicalSerialize for Ev {
    fn serialize_with_mode<W: Write>(&self, mut w: W, c: Compress) -> Result<(), SerializationError> {
        w.write_all(&[self.0])?;
        if c == Compress::No { w.write_all(&[!self.0])?; }
        Ok(())
    }
    fn serialized_size(&self, c: Compress) -> usize { if c == Compress::Yes { 1 } else { 2 } }
}
impl Valid for Ev {
    fn check(&self) -> Result<(), SerializationError> { if self.0 % 2 == 0 { Ok(()) } else { Err(SerializationError::InvalidData) } }
}
impl CanonicalDeserialize for Ev {
    fn deserialize_with_mode<R: Read>(mut r: R, c: Compress, v: Validate) -> Result<Self, SerializationError> {
        let mut b = [0u8; 1];
        r.read_exact(&mut b)?;
        if c == Compress::No {
            let mut b2 = [0u8; 1];
            r.read_exact(&mut b2)?;
            if b2[0] != !b[0] { return Err(SerializationError::InvalidData); }
        }
        let e = Ev(b[0]);
        if v == Validate::Yes { e.check()?; }
        Ok(e)
    }
}
#[derive(CanonicalSerialize, CanonicalDeserialize, PartialEq, Debug, Clone)]
struct DvNamed { a: Ev, pair: (u8, Ev), deep: (u8, (Ev, (u16, Ev))) }
#[derive(CanonicalSerialize, CanonicalDeserialize, PartialEq, Debug, Clone)]
struct DvTup(u16, (Ev, (u8, Ev)), Ev);
#[derive(CanonicalSerialize, CanonicalDeserialize, PartialEq, Debug, Clone)]
struct DvOne(Ev);
#[derive(CanonicalSerialize, CanonicalDeserialize, PartialEq, Debug, Clone)]
struct DvGen<T: CanonicalSerialize + CanonicalDeserialize> where T: Clone { t: T, v: Vec<T>, o: Option<(T, u8)> }

/// `mk(i)` builds a value whose Ev leaves are all valid except leaf number `i` (i >= leaves: all valid).
/// Validate::Yes must reject exactly when some leaf is invalid; Validate::No must accept and return the value;
/// both the value's own `check()` and `batch_check` over a slice holding it must agree.
fn validity<T, F>(t: &mut Tally, name: &str, leaves: usize, mk: F)
where
    T: CanonicalSerialize + CanonicalDeserialize + PartialEq + Debug + Clone + Send,
    F: Fn(usize) -> T,
{
    for bad in 0..=leaves {
        let v = mk(bad);
        let has_bad = bad < leaves;
        for c in [Compress::Yes, Compress::No] {
            let cs = if c == Compress::Yes { "compressed" } else { "uncompressed" };
            let mut bytes = vec![];
            t.check(v.serialize_with_mode(&mut bytes, c).is_ok() && bytes.len() == v.serialized_size(c), || format!("{name}: serialize / serialized_size disagree for {v:?} {cs}"));
            let (r, used) = de::<T>(&bytes, c, Validate::No);
            t.check(matches!(&r, Ok(w) if *w == v) && used == bytes.len(), || format!("{name}: unchecked read of {v:?} {cs} -> {r:?}"));
            let (r, _) = de::<T>(&bytes, c, Validate::Yes);
            t.check(r.is_err() == has_bad, || format!("{name}: checked read of {v:?} (invalid leaf: {has_bad}, leaf {bad}) {cs} -> {r:?}"));
            // the same value inside the standard containers
            let (r, _) = { let mut b = vec![]; vec![v.clone()].serialize_with_mode(&mut b, c).unwrap(); de::<Vec<T>>(&b, c, Validate::Yes) };
            t.check(r.is_err() == has_bad, || format!("{name}: checked read of Vec[{v:?}] (invalid leaf {bad}: {has_bad}) {cs} -> {r:?}"));
            let (r, _) = { let mut b = vec![]; [v.clone(), mk(leaves)].serialize_with_mode(&mut b, c).unwrap(); de::<[T; 2]>(&b, c, Validate::Yes) };
            t.check(r.is_err() == has_bad, || format!("{name}: checked read of [{v:?}, valid] (invalid leaf {bad}: {has_bad}) {cs}"));
            let (r, _) = { let mut b = vec![]; [mk(leaves), v.clone()].serialize_with_mode(&mut b, c).unwrap(); de::<[T; 2]>(&b, c, Validate::Yes) };
            t.check(r.is_err() == has_bad, || format!("{name}: checked read of [valid, {v:?}] (invalid leaf {bad}: {has_bad}) {cs}"));
            let (r, _) = { let mut b = vec![]; Some(vec![mk(leaves), v.clone()]).serialize_with_mode(&mut b, c).unwrap(); de::<Option<Vec<T>>>(&b, c, Validate::Yes) };
            t.check(r.is_err() == has_bad, || format!("{name}: checked read of Some(Vec[valid, {v:?}]) (invalid leaf {bad}: {has_bad}) {cs}"));
            let (r, _) = { let mut b = vec![]; (7u8, v.clone()).serialize_with_mode(&mut b, c).unwrap(); de::<(u8, T)>(&b, c, Validate::Yes) };
            t.check(r.is_err() == has_bad, || format!("{name}: checked read of (u8, {v:?}) (invalid leaf {bad}: {has_bad}) {cs}"));
            let (r, _) = { let mut b = vec![]; BTreeMap::from([(1u8, mk(leaves)), (2u8, v.clone())]).serialize_with_mode(&mut b, c).unwrap(); de::<BTreeMap<u8, T>>(&b, c, Validate::Yes) };
            t.check(r.is_err() == has_bad, || format!("{name}: checked read of BTreeMap{{1: valid, 2: {v:?}}} (invalid leaf {bad}: {has_bad}) {cs}"));
            let (r, _) = { let mut b = vec![]; VecDeque::from(vec![v.clone(), mk(leaves)]).serialize_with_mode(&mut b, c).unwrap(); de::<VecDeque<T>>(&b, c, Validate::Yes) };
            t.check(r.is_err() == has_bad, || format!("{name}: checked read of VecDeque[{v:?}, valid] (invalid leaf {bad}: {has_bad}) {cs}"));
            let (r, _) = { let mut b = vec![]; LinkedList::from([mk(leaves), v.clone()]).serialize_with_mode(&mut b, c).unwrap(); de::<LinkedList<T>>(&b, c, Validate::Yes) };
            t.check(r.is_err() == has_bad, || format!("{name}: checked read of LinkedList[valid, {v:?}] (invalid leaf {bad}: {has_bad}) {cs}"));
            let (r, _) = { let mut b = vec![]; Arc::new(v.clone()).serialize_with_mode(&mut b, c).unwrap(); de::<Arc<T>>(&b, c, Validate::Yes) };
            t.check(r.is_err() == has_bad, || format!("{name}: checked read of Arc({v:?}) (invalid leaf {bad}: {has_bad}) {cs}"));
        }
        t.check(v.check().is_err() == has_bad, || format!("{name}: check() of {v:?} (invalid leaf {bad}: {has_bad})"));
        let sl = [mk(leaves), v.clone(), mk(leaves)];
        t.check(T::batch_check(sl.iter()).is_err() == has_bad, || format!("{name}: batch_check over [valid, {v:?}, valid] (invalid leaf {bad}: {has_bad})"));
        t.check(T::batch_check([v.clone()].iter()).is_err() == has_bad, || format!("{name}: batch_check over [{v:?}] (invalid leaf {bad}: {has_bad})"));
    }
}

fn ev(i: usize, bad: usize, k: u8) -> Ev { if i == bad { Ev(2 * k + 1) } else { Ev(2 * k) } }

pub fn ser_validity(t: &mut Tally) {
    // mode-dependent element size: sizes and encodings of every container follow the element's mode
    for n in [0usize, 1, 2, 5] {
        let v: Vec<Ev> = (0..n).map(|i| Ev((2 * i) as u8)).collect();
        chk(t, "Vec<Ev>", &v);
        chk(t, "VecDeque<Ev>", &v.iter().cloned().collect::<VecDeque<Ev>>());
        chk(t, "LinkedList<Ev>", &v.iter().cloned().collect::<LinkedList<Ev>>());
        chk(t, "BTreeSet<Ev>", &v.iter().cloned().collect::<BTreeSet<Ev>>());
        chk(t, "BTreeMap<Ev,Ev>", &v.iter().cloned().map(|e| (e, Ev(e.0 ^ 2))).collect::<BTreeMap<Ev, Ev>>());
        chk(t, "Option<Vec<Ev>>", &Some(v.clone()));
        chk(t, "Arc<Vec<Ev>>", &Arc::new(v.clone()));
        let cow: Cow<'static, Vec<Ev>> = Cow::Owned(v.clone());
        chk(t, "Cow<Vec<Ev>>", &cow);
        chk(t, "CompressedChecked<Vec<Ev>>", &CompressedChecked(v.clone()));
        chk(t, "CompressedUnchecked<Vec<Ev>>", &CompressedUnchecked(v.clone()));
        chk(t, "UncompressedChecked<Vec<Ev>>", &UncompressedChecked(v.clone()));
        chk(t, "UncompressedUnchecked<Vec<Ev>>", &UncompressedUnchecked(v.clone()));
        for c in [Compress::Yes, Compress::No] {
            // explicit expected encoding: length prefix, then every element in mode c
            let mut exp = (n as u64).to_le_bytes().to_vec();
            for e in &v { exp.push(e.0); if c == Compress::No { exp.push(!e.0); } }
            let mut b = vec![]; v.serialize_with_mode(&mut b, c).unwrap();
            t.check(b == exp, || format!("Vec<Ev> len {n}: encoding is not prefix + elements in the caller's mode"));
            let mut b = vec![]; v.iter().cloned().collect::<VecDeque<Ev>>().serialize_with_mode(&mut b, c).unwrap();
            t.check(b == exp, || format!("VecDeque<Ev> len {n}: encoding is not prefix + elements in the caller's mode"));
            let mut b = vec![]; v.iter().cloned().collect::<LinkedList<Ev>>().serialize_with_mode(&mut b, c).unwrap();
            t.check(b == exp, || format!("LinkedList<Ev> len {n}: encoding is not prefix + elements in the caller's mode"));
            let mut b = vec![]; v.iter().cloned().collect::<BTreeSet<Ev>>().serialize_with_mode(&mut b, c).unwrap();
            t.check(b == exp, || format!("BTreeSet<Ev> len {n}: encoding is not prefix + elements in the caller's mode"));
            // pinned wrappers: bytes AND reported size are those of the pinned mode, whatever mode the caller passes
            let mut cb = vec![]; v.serialize_compressed(&mut cb).unwrap();
            let mut ub = vec![]; v.serialize_uncompressed(&mut ub).unwrap();
            let mut b = vec![]; CompressedChecked(v.clone()).serialize_with_mode(&mut b, c).unwrap();
            t.check(b == cb && CompressedChecked(v.clone()).serialized_size(c) == cb.len(), || format!("CompressedChecked<Vec<Ev>> len {n}: bytes or size not those of the compressed mode"));
            let mut b = vec![]; CompressedUnchecked(v.clone()).serialize_with_mode(&mut b, c).unwrap();
            t.check(b == cb && CompressedUnchecked(v.clone()).serialized_size(c) == cb.len(), || format!("CompressedUnchecked<Vec<Ev>> len {n}: bytes or size not those of the compressed mode"));
            let mut b = vec![]; UncompressedChecked(v.clone()).serialize_with_mode(&mut b, c).unwrap();
            t.check(b == ub && UncompressedChecked(v.clone()).serialized_size(c) == ub.len(), || format!("UncompressedChecked<Vec<Ev>> len {n}: bytes or size not those of the uncompressed mode"));
            let mut b = vec![]; UncompressedUnchecked(v.clone()).serialize_with_mode(&mut b, c).unwrap();
            t.check(b == ub && UncompressedUnchecked(v.clone()).serialized_size(c) == ub.len(), || format!("UncompressedUnchecked<Vec<Ev>> len {n}: bytes or size not those of the uncompressed mode"));
        }
    }
    // pinned wrappers and validation: the Checked wrappers validate whatever the caller says, the Unchecked ones never do
    for c in [Compress::Yes, Compress::No] {
        for val in [Validate::Yes, Validate::No] {
            let bad = vec![Ev(2), Ev(3)];
            let mut cb = vec![]; bad.serialize_compressed(&mut cb).unwrap();
            let mut ub = vec![]; bad.serialize_uncompressed(&mut ub).unwrap();
            t.check(de::<CompressedChecked<Vec<Ev>>>(&cb, c, val).0.is_err(), || "CompressedChecked accepts an invalid element".into());
            t.check(de::<UncompressedChecked<Vec<Ev>>>(&ub, c, val).0.is_err(), || "UncompressedChecked accepts an invalid element".into());
            t.check(de::<CompressedUnchecked<Vec<Ev>>>(&cb, c, val).0.is_ok(), || "CompressedUnchecked validates".into());
            t.check(de::<UncompressedUnchecked<Vec<Ev>>>(&ub, c, val).0.is_ok(), || "UncompressedUnchecked validates".into());
        }
    }
    // validation reaches every leaf
    validity::<Ev, _>(t, "Ev", 1, |b| ev(0, b, 1));
    validity::<(Ev, Ev), _>(t, "(Ev,Ev)", 2, |b| (ev(0, b, 1), ev(1, b, 2)));
    validity::<(u8, (Ev, (Ev, u16)), Ev), _>(t, "(u8,(Ev,(Ev,u16)),Ev)", 3, |b| (9, (ev(0, b, 1), (ev(1, b, 2), 7)), ev(2, b, 3)));
    validity::<[Ev; 3], _>(t, "[Ev;3]", 3, |b| [ev(0, b, 1), ev(1, b, 2), ev(2, b, 3)]);
    validity::<Option<Ev>, _>(t, "Option<Ev>", 1, |b| Some(ev(0, b, 1)));
    for n in [1usize, 2, 3, 9] {
        validity::<Vec<Ev>, _>(t, "Vec<Ev>", n, |b| (0..n).map(|i| ev(i, b, i as u8)).collect());
        validity::<VecDeque<Ev>, _>(t, "VecDeque<Ev>", n, |b| (0..n).map(|i| ev(i, b, i as u8)).collect());
        validity::<LinkedList<Ev>, _>(t, "LinkedList<Ev>", n, |b| (0..n).map(|i| ev(i, b, i as u8)).collect());
        validity::<BTreeSet<Ev>, _>(t, "BTreeSet<Ev>", n, |b| (0..n).map(|i| ev(i, b, i as u8)).collect());
        validity::<BTreeMap<Ev, u8>, _>(t, "BTreeMap<Ev,u8> (keys)", n, |b| (0..n).map(|i| (ev(i, b, i as u8), 5)).collect());
        validity::<BTreeMap<u8, Ev>, _>(t, "BTreeMap<u8,Ev> (values)", n, |b| (0..n).map(|i| (i as u8, ev(i, b, i as u8))).collect());
        validity::<BTreeMap<Ev, Ev>, _>(t, "BTreeMap<Ev,Ev>", 2 * n, |b| (0..n).map(|i| (ev(2 * i, b, i as u8), ev(2 * i + 1, b, 100 + i as u8))).collect());
        validity::<Vec<Vec<Ev>>, _>(t, "Vec<Vec<Ev>>", n, |b| (0..n).map(|i| vec![Ev(0), ev(i, b, i as u8)]).collect());
        validity::<Vec<Option<Ev>>, _>(t, "Vec<Option<Ev>>", n, |b| (0..n).map(|i| if i % 3 == 2 && i != b { None } else { Some(ev(i, b, i as u8)) }).collect());
        validity::<Vec<(u8, Ev)>, _>(t, "Vec<(u8,Ev)>", n, |b| (0..n).map(|i| (i as u8, ev(i, b, i as u8))).collect());
        validity::<Arc<Vec<Ev>>, _>(t, "Arc<Vec<Ev>>", n, |b| Arc::new((0..n).map(|i| ev(i, b, i as u8)).collect()));
        validity::<Vec<DvOne>, _>(t, "Vec<derive DvOne>", n, |b| (0..n).map(|i| DvOne(ev(i, b, i as u8))).collect());
    }
    validity::<Cow<'static, Vec<Ev>>, _>(t, "Cow<Vec<Ev>>", 2, |b| Cow::Owned(vec![ev(0, b, 1), ev(1, b, 2)]));
    // derived Valid: named fields, tuple fields, nested tuples, single-field tuple struct, generics
    validity::<DvNamed, _>(t, "derive DvNamed", 4, |b| DvNamed { a: ev(0, b, 1), pair: (3, ev(1, b, 2)), deep: (4, (ev(2, b, 3), (5, ev(3, b, 4)))) });
    validity::<DvTup, _>(t, "derive DvTup", 3, |b| DvTup(1, (ev(0, b, 1), (2, ev(1, b, 2))), ev(2, b, 3)));
    validity::<DvOne, _>(t, "derive DvOne", 1, |b| DvOne(ev(0, b, 1)));
    validity::<DvGen<Ev>, _>(t, "derive DvGen<Ev>", 4, |b| DvGen { t: ev(0, b, 1), v: vec![ev(1, b, 2), ev(2, b, 3)], o: Some((ev(3, b, 4), 1)) });
    validity::<DvGen<DvTup>, _>(t, "derive DvGen<DvTup>", 6, |b| DvGen { t: DvTup(1, (ev(0, b, 1), (2, ev(1, b, 2))), ev(2, b, 3)), v: vec![DvTup(1, (ev(3, b, 1), (2, ev(4, b, 2))), ev(5, b, 3))], o: None });
    chk(t, "derive DvNamed", &DvNamed { a: Ev(2), pair: (3, Ev(4)), deep: (4, (Ev(6), (5, Ev(8)))) });
    chk(t, "derive DvTup", &DvTup(1, (Ev(2), (2, Ev(4))), Ev(6)));
    chk(t, "derive DvGen<Ev>", &DvGen { t: Ev(2), v: vec![Ev(4), Ev(6)], o: Some((Ev(8), 1)) });
}

pub fn ser_impls(t: &mut Tally, seed: u64) {
    let mut rng = crate::Rng(seed.wrapping_mul(0x9E3779B97F4A7C15) | 1);
    // ---------- integers / bool at the edges (complete proofs are the Kani harnesses; here as elements of containers)
    let u64s = [0u64, 1, 0xff, 0x100, u32::MAX as u64, 1 << 32, i64::MAX as u64, 1 << 63, u64::MAX, rng.next()];
    for &x in &u64s {
        chk(t, "u64", &x); chk(t, "i64", &(x as i64)); chk(t, "u32", &(x as u32)); chk(t, "i32", &(x as i32));
        chk(t, "u16", &(x as u16)); chk(t, "i16", &(x as i16)); chk(t, "u8", &(x as u8)); chk(t, "i8", &(x as i8));
        chk(t, "usize", &(x as usize)); chk(t, "isize", &(x as isize));
    }
    chk(t, "bool", &true); chk(t, "bool", &false); chk(t, "unit", &());
    for b in 2..=255u8 { malformed::<bool>(t, "bool", vec![b]); malformed::<Option<u8>>(t, "Option<u8> tag", vec![b, 7]); malformed::<Option<Option<bool>>>(t, "nested Option tag", vec![1, b, 1]); }
    // ---------- BigUint: 0, every bit-length boundary up to 200 bits, byte boundaries
    let mut bigs = vec![BigUint::from(0u8), BigUint::from(1u8), BigUint::from(255u8), BigUint::from(256u16), BigUint::from(123456u32)];
    for bits in 1..200u32 { let p = BigUint::from(1u8) << bits; bigs.push(p.clone()); bigs.push(&p - 1u8); bigs.push(&p + 1u8); }
    for b in &bigs { chk(t, "BigUint", b); }
    chk(t, "Vec<BigUint>", &bigs[..9].to_vec());
    chk(t, "Option<BigUint>", &Some(BigUint::from(0u8)));
    chk(t, "(BigUint, BigUint)", &(BigUint::from(0u8), BigUint::from(1u8) << 64));
    oversized::<BigUint>(t, "BigUint", &[7], 3);
    // ---------- Option, tuples, arrays
    chk(t, "Option<u64>", &None::<u64>); chk(t, "Option<u64>", &Some(u64::MAX)); chk(t, "Option<Option<bool>>", &Some(None::<bool>)); chk(t, "Option<Option<bool>>", &Some(Some(true)));
    chk(t, "Option<Vec<u8>>", &Some(vec![1u8, 2, 3])); chk(t, "Option<()>", &Some(()));
    chk(t, "tuple1", &(7u8,)); chk(t, "tuple2", &(7u8, true)); chk(t, "tuple3", &(1u16, Some(2u32), vec![3u8]));
    chk(t, "tuple4", &(1u8, 2u16, 3u32, 4u64)); chk(t, "tuple5", &(1u8, (2u16, false), [3u32; 2], "x".to_string(), None::<u8>));
    chk(t, "[u8;0]", &([] as [u8; 0])); chk(t, "[u16;3]", &[1u16, 0xffff, 0]); chk(t, "[[bool;2];2]", &[[true, false], [false, false]]);
    chk(t, "[Vec<u8>;2]", &[vec![], vec![9u8; 5]]); chk(t, "[Option<u8>;33]", &[Some(5u8); 33]);
    // ---------- sequences: empty, nested, large
    for n in [0usize, 1, 2, 7, 255, 256, 1023, 1024, 1025, 5000] {
        let v: Vec<u8> = (0..n).map(|i| (i * 31 + 7) as u8).collect();
        chk(t, "Vec<u8>", &v);
        chk(t, "VecDeque<u8>", &v.iter().cloned().collect::<VecDeque<u8>>());
        if n <= 1025 {
            chk(t, "LinkedList<u8>", &v.iter().cloned().collect::<LinkedList<u8>>());
            let w: Vec<u32> = (0..n).map(|i| (i as u32).wrapping_mul(0x9E3779B1)).collect();
            chk(t, "Vec<u32>", &w);
            chk(t, "BTreeSet<u32>", &w.iter().cloned().collect::<BTreeSet<u32>>());
            chk(t, "BTreeMap<u32,u8>", &w.iter().cloned().zip(v.iter().cloned()).collect::<BTreeMap<u32, u8>>());
        }
    }
    // a VecDeque whose ring buffer is wrapped around
    let mut dq: VecDeque<u16> = VecDeque::with_capacity(8);
    for i in 0..8 { dq.push_back(i); }
    for i in 0..5 { dq.pop_front(); dq.push_back(100 + i); }
    chk(t, "VecDeque<u16> wrapped", &dq);
    chk(t, "Vec<Vec<u8>>", &vec![vec![], vec![1u8], vec![2, 3], vec![]]);
    chk(t, "Vec<Option<u16>>", &vec![None, Some(0u16), Some(0xffff), None]);
    chk(t, "Vec<bool>", &vec![true, false, true]);
    chk(t, "Vec<(u8, Vec<u16>)>", &vec![(1u8, vec![2u16, 3]), (4, vec![])]);
    chk(t, "VecDeque<Vec<u8>>", &VecDeque::from(vec![vec![1u8, 2], vec![], vec![3]]));
    chk(t, "LinkedList<Option<bool>>", &LinkedList::from([Some(true), None, Some(false)]));
    chk(t, "BTreeMap<u8,Vec<u8>>", &BTreeMap::from([(3u8, vec![1u8, 2]), (1, vec![]), (200, vec![9; 9])]));
    chk(t, "BTreeMap<String,BTreeSet<u8>>", &BTreeMap::from([("b".to_string(), BTreeSet::from([3u8, 1])), ("".to_string(), BTreeSet::new())]));
    chk(t, "BTreeSet<Vec<u8>>", &BTreeSet::from([vec![], vec![0u8], vec![0, 0]]));
    chk(t, "BTreeSet<(u8,bool)>", &BTreeSet::from([(1u8, true), (1, false), (0, true)]));
    // ---------- String: empty, ASCII, multi-byte, long
    for s in ["", "a", "hello world", "\u{0}", "gr\u{fc}\u{df}e \u{4e16}\u{754c} \u{1F980}", "\u{7f}\u{80}\u{7ff}\u{800}\u{ffff}\u{10000}\u{10ffff}"] {
        chk(t, "String", &s.to_string());
    }
    chk(t, "String long", &"\u{e9}x".repeat(700));
    chk(t, "Vec<String>", &vec!["a".to_string(), "".to_string(), "\u{4e16}".to_string()]);
    // invalid UTF-8 payloads behind a correct length prefix
    for bad in [&[0xffu8][..], &[0xc0, 0x80], &[0xe2, 0x82], &[0xed, 0xa0, 0x80], &[0xf4, 0x90, 0x80, 0x80], &[b'a', 0x80, b'b'], &[0xf8, 0x88, 0x80, 0x80, 0x80]] {
        let mut b = (bad.len() as u64).to_le_bytes().to_vec();
        b.extend_from_slice(bad);
        malformed::<String>(t, "String invalid UTF-8", b.clone());
        let mut b2 = 1u64.to_le_bytes().to_vec();
        b2.extend_from_slice(&b);
        malformed::<Vec<String>>(t, "Vec<String> invalid UTF-8", b2);
    }
    // ---------- oversized length prefixes on every sequence type
    oversized::<Vec<u8>>(t, "Vec<u8>", &[7], 3);
    oversized::<Vec<u64>>(t, "Vec<u64>", &[7; 8], 2);
    oversized::<Vec<bool>>(t, "Vec<bool>", &[1], 0);
    oversized::<Vec<Vec<u8>>>(t, "Vec<Vec<u8>>", &[0; 8], 2);
    oversized::<Vec<(u8, u16)>>(t, "Vec<(u8,u16)>", &[1, 2, 3], 1);
    oversized::<VecDeque<u8>>(t, "VecDeque<u8>", &[7], 3);
    oversized::<VecDeque<u64>>(t, "VecDeque<u64>", &[7; 8], 0);
    oversized::<LinkedList<u8>>(t, "LinkedList<u8>", &[7], 3);
    oversized::<LinkedList<u32>>(t, "LinkedList<u32>", &[7; 4], 1);
    oversized::<BTreeSet<u8>>(t, "BTreeSet<u8>", &[7], 1);
    oversized::<BTreeSet<u64>>(t, "BTreeSet<u64>", &[7; 8], 0);
    oversized::<BTreeMap<u8, u8>>(t, "BTreeMap<u8,u8>", &[7, 8], 1);
    oversized::<BTreeMap<u32, Vec<u8>>>(t, "BTreeMap<u32,Vec<u8>>", &[0; 12], 1);
    oversized::<String>(t, "String", b"a", 5);
    {
        // inner sequence with an oversized prefix inside Option / tuple / array / derive struct
        for claimed in [4u64, 1 << 33, u64::MAX] {
            let mut b = vec![1u8];
            b.extend_from_slice(&claimed.to_le_bytes());
            b.extend_from_slice(&[1, 2, 3]);
            malformed::<Option<Vec<u8>>>(t, "Option<Vec<u8>> inner prefix", b.clone());
            let mut c = vec![9u8];
            c.extend_from_slice(&claimed.to_le_bytes());
            c.extend_from_slice(&[1, 0, 2, 0]);
            malformed::<Named>(t, "derive struct: inner Vec<u16> prefix", c.clone());
            malformed::<(u8, Vec<u16>)>(t, "(u8, Vec<u16>) inner prefix", c);
            let mut d = claimed.to_le_bytes().to_vec();
            d.extend_from_slice(&[5; 16]);
            malformed::<[Vec<u8>; 2]>(t, "[Vec<u8>;2] inner prefix", d);
        }
    }
    // ---------- smart pointers and borrowed wrappers (serialize through the pointee; Arc and Cow also deserialize)
    for n in [0usize, 1, 300] {
        let v: Vec<u16> = (0..n).map(|i| (i as u16).wrapping_mul(257)).collect();
        chk(t, "Arc<Vec<u16>>", &Arc::new(v.clone()));
        let cow: Cow<'static, Vec<u16>> = Cow::Owned(v.clone());
        chk(t, "Cow<Vec<u16>>", &cow);
        for c in [Compress::Yes, Compress::No] {
            let mut direct = vec![];
            v.serialize_with_mode(&mut direct, c).unwrap();
            let rc = Rc::new(v.clone());
            let mut b = vec![];
            t.check(rc.serialize_with_mode(&mut b, c).is_ok() && b == direct && rc.serialized_size(c) == b.len(), || format!("Rc<Vec<u16>> len {n}: differs from pointee encoding / size"));
            let mut b = vec![];
            let r: &Vec<u16> = &v;
            t.check(r.serialize_with_mode(&mut b, c).is_ok() && b == direct && CanonicalSerialize::serialized_size(&r, c) == b.len(), || "&T: differs from pointee encoding / size".into());
            let mut vm = v.clone();
            let rm: &mut Vec<u16> = &mut vm;
            let mut b = vec![];
            t.check(rm.serialize_with_mode(&mut b, c).is_ok() && b == direct && CanonicalSerialize::serialized_size(&rm, c) == b.len(), || "&mut T: differs from pointee encoding / size".into());
            let sl: &[u16] = &v[..];
            let mut b = vec![];
            t.check(sl.serialize_with_mode(&mut b, c).is_ok() && b == direct && sl.serialized_size(c) == b.len(), || "&[T]: differs from Vec encoding / size".into());
            let mut b = vec![];
            t.check(v[..].serialize_with_mode(&mut b, c).is_ok() && b == direct && v[..].serialized_size(c) == b.len(), || "[T]: differs from Vec encoding / size".into());
            let cb: Cow<'_, Vec<u16>> = Cow::Borrowed(&v);
            let mut b = vec![];
            t.check(cb.serialize_with_mode(&mut b, c).is_ok() && b == direct && cb.serialized_size(c) == b.len(), || "Cow::Borrowed: differs from pointee encoding / size".into());
        }
    }
    chk(t, "Arc<(u8,String)>", &Arc::new((3u8, "xyz".to_string())));
    chk(t, "PhantomData", &core::marker::PhantomData::<u64>);
    // ---------- mode-pinning wrappers: equal the inner encoding in the pinned mode whatever mode the caller passes
    {
        let inner = (7u8, vec![1u16, 2], Some(true));
        chk(t, "CompressedChecked", &CompressedChecked(inner.clone()));
        chk(t, "CompressedUnchecked", &CompressedUnchecked(inner.clone()));
        chk(t, "UncompressedChecked", &UncompressedChecked(inner.clone()));
        chk(t, "UncompressedUnchecked", &UncompressedUnchecked(inner.clone()));
        let mut c_bytes = vec![]; inner.serialize_compressed(&mut c_bytes).unwrap();
        let mut u_bytes = vec![]; inner.serialize_uncompressed(&mut u_bytes).unwrap();
        for c in [Compress::Yes, Compress::No] {
            let mut b = vec![]; CompressedChecked(inner.clone()).serialize_with_mode(&mut b, c).unwrap();
            t.check(b == c_bytes, || "CompressedChecked: not the compressed encoding of the inner value".into());
            let mut b = vec![]; CompressedUnchecked(inner.clone()).serialize_with_mode(&mut b, c).unwrap();
            t.check(b == c_bytes, || "CompressedUnchecked: not the compressed encoding of the inner value".into());
            let mut b = vec![]; UncompressedChecked(inner.clone()).serialize_with_mode(&mut b, c).unwrap();
            t.check(b == u_bytes, || "UncompressedChecked: not the uncompressed encoding of the inner value".into());
            let mut b = vec![]; UncompressedUnchecked(inner.clone()).serialize_with_mode(&mut b, c).unwrap();
            t.check(b == u_bytes, || "UncompressedUnchecked: not the uncompressed encoding of the inner value".into());
        }
    }
    // ---------- derive macros: named, tuple, nested-tuple, generic, unit; with containers inside
    let named = Named { a: 9, b: vec![1, 0xffff], c: Some((true, 77)), d: "d\u{e9}".into() };
    let tup = Tup(u64::MAX, BTreeMap::from([(1u8, vec![2u8]), (0, vec![])]), (1, (2, true)), [None, Some(0), Some(255)]);
    chk(t, "derive Named", &named);
    chk(t, "derive Named (empty)", &Named { a: 0, b: vec![], c: None, d: String::new() });
    chk(t, "derive Tup", &tup);
    chk(t, "derive Nested", &Nested { x: (named.clone(), (tup.clone(), 3)), y: vec![named.clone(), named.clone()], z: () });
    chk(t, "derive Gen<u16>", &Gen { t: 5u16, v: vec![6, 7] });
    chk(t, "derive Gen<Named>", &Gen { t: named.clone(), v: vec![] });
    chk(t, "derive Unit", &Unit);
    // field order and flattening: the encoding of a derived struct is the concatenation of its fields' encodings in declaration order
    for c in [Compress::Yes, Compress::No] {
        let mut cat = vec![];
        named.a.serialize_with_mode(&mut cat, c).unwrap(); named.b.serialize_with_mode(&mut cat, c).unwrap();
        named.c.serialize_with_mode(&mut cat, c).unwrap(); named.d.serialize_with_mode(&mut cat, c).unwrap();
        let mut b = vec![]; named.serialize_with_mode(&mut b, c).unwrap();
        t.check(b == cat, || "derive Named: encoding is not the concatenation of the field encodings".into());
        let mut cat = vec![];
        tup.0.serialize_with_mode(&mut cat, c).unwrap(); tup.1.serialize_with_mode(&mut cat, c).unwrap();
        (tup.2).0.serialize_with_mode(&mut cat, c).unwrap(); ((tup.2).1).0.serialize_with_mode(&mut cat, c).unwrap(); ((tup.2).1).1.serialize_with_mode(&mut cat, c).unwrap();
        tup.3.serialize_with_mode(&mut cat, c).unwrap();
        let mut b = vec![]; tup.serialize_with_mode(&mut b, c).unwrap();
        t.check(b == cat, || "derive Tup: encoding is not the concatenation of the (flattened) field encodings".into());
    }
    // random nested values
    for _ in 0..200 {
        let n = (rng.next() % 6) as usize;
        let v: Vec<(Option<u16>, Vec<u8>, String)> = (0..n).map(|_| {
            let o = if rng.next() % 2 == 0 { None } else { Some(rng.next() as u16) };
            let l = (rng.next() % 5) as usize;
            let bytes: Vec<u8> = (0..l).map(|_| rng.next() as u8).collect();
            let s: String = (0..(rng.next() % 4)).map(|_| char::from_u32((rng.next() % 0xd7ff) as u32).unwrap_or('x')).collect();
            (o, bytes, s)
        }).collect();
        chk(t, "random Vec<(Option<u16>,Vec<u8>,String)>", &v);
        let m: BTreeMap<u16, Option<Vec<u8>>> = (0..n).map(|i| (rng.next() as u16, if i % 2 == 0 { None } else { Some(vec![i as u8; i]) })).collect();
        chk(t, "random BTreeMap<u16,Option<Vec<u8>>>", &m);
    }
    ser_validity(t);
}
