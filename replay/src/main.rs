//! Witness search / replay against the REAL arkworks code (path dependencies on /repo).
//!   replay search <unit> <seed>      -> prints `WITNESS <text>` for the first input on which the real
//!                                       function disagrees with the arbitrary-precision oracle
//!   replay replay <unit> <witness>   -> re-runs that input; exit 1 if the disagreement reproduces
use ark_ff::{BigInt, BigInteger, Fp, MontBackend, MontConfig};
use num_bigint::BigUint;
use num_traits::{One, Zero};

mod cfgs;
use cfgs::*;

pub struct Rng(pub u64);
impl Rng {
    pub fn next(&mut self) -> u64 {
        self.0 ^= self.0 << 13;
        self.0 ^= self.0 >> 7;
        self.0 ^= self.0 << 17;
        self.0
    }
}

fn to_big<const N: usize>(x: &BigInt<N>) -> BigUint {
    let mut r = BigUint::zero();
    for i in (0..N).rev() {
        r = (r << 64) + BigUint::from(x.0[i]);
    }
    r
}
fn from_big<const N: usize>(x: &BigUint) -> BigInt<N> {
    let mut r = [0u64; N];
    let d = x.to_u64_digits();
    for i in 0..N {
        r[i] = *d.get(i).unwrap_or(&0);
    }
    BigInt(r)
}

/// interesting residues for a modulus p
fn candidates<const N: usize>(p: &BigUint, rng: &mut Rng, extra: usize) -> Vec<BigUint> {
    let mut v = vec![BigUint::zero(), BigUint::one(), BigUint::from(2u8), p - 1u8, p - 2u8, p >> 1, (p >> 1) + 1u8];
    for k in 1..(64 * N) {
        let t = BigUint::one() << k;
        for c in [&t - 1u8, t.clone(), &t + 1u8] {
            if &c < p {
                v.push(c);
            }
        }
    }
    let r = BigUint::one() << (64 * N);
    v.push(&r % p);
    v.push((&r * &r) % p);
    for _ in 0..extra {
        let mut x = BigUint::zero();
        for _ in 0..N {
            x = (x << 64) + BigUint::from(rng.next());
        }
        v.push(x % p);
    }
    v.sort();
    v.dedup();
    v
}

type F<T, const N: usize> = Fp<MontBackend<T, N>, N>;

/// run one Montgomery-level operation of the trait-default arithmetic on raw Montgomery residues
fn run_op<T: MontConfig<N>, const N: usize>(op: &str, x: &BigUint, y: &BigUint) -> (BigUint, BigUint) {
    // returns (got, expected) as raw residues (Montgomery form in, Montgomery form out)
    let p = to_big(&T::MODULUS);
    let r = BigUint::one() << (64 * N);
    let rinv = modinv(&(&r % &p), &p);
    let mut a: F<T, N> = Fp::new_unchecked(from_big::<N>(x));
    let b: F<T, N> = Fp::new_unchecked(from_big::<N>(y));
    let exp = match op {
        "MontConfig::mul_assign" => {
            T::mul_assign(&mut a, &b);
            (x * y * &rinv) % &p
        },
        "MontConfig::square_in_place" => {
            T::square_in_place(&mut a);
            (x * x * &rinv) % &p
        },
        "MontConfig::add_assign" => {
            T::add_assign(&mut a, &b);
            (x + y) % &p
        },
        "MontConfig::sub_assign" => {
            T::sub_assign(&mut a, &b);
            (x + &p - y) % &p
        },
        "MontConfig::double_in_place" => {
            T::double_in_place(&mut a);
            (x + x) % &p
        },
        "MontConfig::neg_in_place" => {
            T::neg_in_place(&mut a);
            (&p - x) % &p
        },
        "MontConfig::into_bigint" => {
            let g = T::into_bigint(a);
            return (to_big(&g), (x * &rinv) % &p);
        },
        "MontConfig::from_bigint" => {
            let g = T::from_bigint(from_big::<N>(x)).map(|f| to_big(&f.0)).unwrap_or(BigUint::zero());
            return (g, (x * &r) % &p);
        },
        "MontConfig::inverse" => {
            if x.is_zero() {
                return (BigUint::zero(), BigUint::zero());
            }
            let g = T::inverse(&a).map(|f| to_big(&f.0)).unwrap();
            // x = X R  ->  inverse = X^{-1} R = R^2 / x
            return (g, (modinv(x, &p) * &r * &r) % &p);
        },
        _ => return (BigUint::zero(), BigUint::zero()),
    };
    (to_big(&a.0), exp)
}

fn modinv(a: &BigUint, p: &BigUint) -> BigUint {
    // p odd, gcd(a,p)=1 assumed (p prime in all configs); Fermat
    a.modpow(&(p - 2u8), p)
}

fn search_cfg<T: MontConfig<N>, const N: usize>(name: &str, op: &str, rng: &mut Rng) -> Option<String> {
    let p = to_big(&T::MODULUS);
    let c = candidates::<N>(&p, rng, 40);
    let unary = matches!(op, "MontConfig::square_in_place" | "MontConfig::double_in_place" | "MontConfig::neg_in_place" | "MontConfig::into_bigint" | "MontConfig::from_bigint" | "MontConfig::inverse");
    for x in &c {
        let ys: Vec<BigUint> = if unary { vec![BigUint::zero()] } else { c.clone() };
        for y in &ys {
            let res = std::panic::catch_unwind(|| run_op::<T, N>(op, x, y));
            match res {
                Ok((g, e)) if g == e => {},
                Ok((g, e)) => return Some(format!("{name};{x};{y};got={g};expected={e}")),
                Err(_) => return Some(format!("{name};{x};{y};got=panic;expected=value")),
            }
        }
    }
    None
}

macro_rules! for_all_cfgs {
    ($f:ident, $($arg:expr),*) => {{
        let mut r = None;
        if r.is_none() { r = $f::<HW64m59, 1>("HW64m59(p=2^64-59,N=1)", $($arg),*); }
        if r.is_none() { r = $f::<HW61, 1>("HW61(p=2^61-1,N=1)", $($arg),*); }
        if r.is_none() { r = $f::<HW101, 1>("HW101(p=101,N=1)", $($arg),*); }
        if r.is_none() { r = $f::<HW63m25, 1>("HW63m25(p=2^63-25,N=1)", $($arg),*); }
        if r.is_none() { r = $f::<HW128m159, 2>("HW128m159(p=2^128-159,N=2)", $($arg),*); }
        if r.is_none() { r = $f::<HW127, 2>("HW127(p=2^127-1,N=2)", $($arg),*); }
        if r.is_none() { r = $f::<HW7x2, 2>("HW7x2(p=7,N=2)", $($arg),*); }
        if r.is_none() { r = $f::<HW192m237, 3>("HW192m237(p=2^192-237,N=3)", $($arg),*); }
        if r.is_none() { r = $f::<HW190m11, 3>("HW190m11(p=2^190-11,N=3)", $($arg),*); }
        if r.is_none() { r = $f::<HW3x126, 2>("HW3x126(p=3*2^126+3755,N=2)", $($arg),*); }
        if r.is_none() { r = $f::<HW127p8799, 2>("HW127p8799(p=2^127+8799,N=2)", $($arg),*); }
        r
    }};
}

fn replay_one(op: &str, w: &str) -> bool {
    // true if the disagreement reproduces
    let parts: Vec<&str> = w.split(';').collect();
    let name = parts[0];
    let x: BigUint = parts[1].parse().unwrap();
    let y: BigUint = parts[2].parse().unwrap();
    macro_rules! go {
        ($t:ty, $n:expr) => {{
            let res = std::panic::catch_unwind(|| run_op::<$t, $n>(op, &x, &y));
            match res {
                Ok((g, e)) => {
                    println!("config {name}: op {op} on raw residues x={x} y={y}: got {g}, integer oracle {e}");
                    g != e
                },
                Err(_) => {
                    println!("config {name}: op {op} on x={x} y={y}: PANIC");
                    true
                },
            }
        }};
    }
    match name.split('(').next().unwrap() {
        "HW64m59" => go!(HW64m59, 1),
        "HW61" => go!(HW61, 1),
        "HW101" => go!(HW101, 1),
        "HW63m25" => go!(HW63m25, 1),
        "HW128m159" => go!(HW128m159, 2),
        "HW127" => go!(HW127, 2),
        "HW7x2" => go!(HW7x2, 2),
        "HW192m237" => go!(HW192m237, 3),
        "HW190m11" => go!(HW190m11, 3),
        "HW3x126" => go!(HW3x126, 2),
        "HW127p8799" => go!(HW127p8799, 2),
        _ => panic!("unknown config"),
    }
}

static LAST_PANIC: std::sync::Mutex<String> = std::sync::Mutex::new(String::new());
mod bigint_units;
/// counting allocator: records the largest single allocation request since the last reset (used by the C18 bounded group to
/// observe "no unbounded allocation from an untrusted length prefix")
pub mod alloc_probe {
    use std::alloc::{GlobalAlloc, Layout, System};
    use std::sync::atomic::{AtomicUsize, Ordering};
    static PEAK: AtomicUsize = AtomicUsize::new(0);
    pub struct Probe;
    unsafe impl GlobalAlloc for Probe {
        unsafe fn alloc(&self, l: Layout) -> *mut u8 {
            PEAK.fetch_max(l.size(), Ordering::Relaxed);
            System.alloc(l)
        }
        unsafe fn dealloc(&self, p: *mut u8, l: Layout) { System.dealloc(p, l) }
        unsafe fn realloc(&self, p: *mut u8, l: Layout, n: usize) -> *mut u8 {
            PEAK.fetch_max(n, Ordering::Relaxed);
            System.realloc(p, l, n)
        }
        unsafe fn alloc_zeroed(&self, l: Layout) -> *mut u8 {
            PEAK.fetch_max(l.size(), Ordering::Relaxed);
            System.alloc_zeroed(l)
        }
    }
    pub fn reset() { PEAK.store(0, Ordering::Relaxed) }
    pub fn peak() -> usize { PEAK.load(Ordering::Relaxed) }
}
#[global_allocator]
static ALLOC: alloc_probe::Probe = alloc_probe::Probe;
mod bounded;
mod serde_units;

fn main() {
    let args: Vec<String> = std::env::args().collect();
    std::panic::set_hook(Box::new(|info| {
        if let Ok(mut g) = LAST_PANIC.lock() {
            *g = format!("{info}");
        }
    }));
    let mode = args[1].as_str();
    let unit = args[2].as_str();
    match mode {
        "bounded" => {
            let seed: u64 = args.get(3).and_then(|s| s.parse().ok()).unwrap_or(1);
            let unit_owned = unit.to_string();
            match std::panic::catch_unwind(move || bounded::run(&unit_owned, seed)) {
                Ok(rc) => std::process::exit(rc),
                Err(_) => {
                    println!("FAIL uncaught panic in group {}: {}", unit, LAST_PANIC.lock().map(|g| g.clone()).unwrap_or_default());
                    std::process::exit(1);
                },
            }
        },
        "search" => {
            let seed: u64 = args.get(3).and_then(|s| s.parse().ok()).unwrap_or(1);
            let mut rng = Rng(seed.wrapping_mul(0x9E3779B97F4A7C15) | 1);
            let w = if unit.starts_with("derive::") {
                // obligations on derive-macro output: the derived toy fields run the generator of the tree under test
                bounded::first_fail("field", seed).map(|f| format!("derived toy field: {f}"))
            } else if unit.starts_with("MontConfig::") {
                for_all_cfgs!(search_cfg, unit, &mut rng)
            } else if unit.starts_with("c09_") || unit.starts_with("c18_") || unit.starts_with("Fp::") || unit.starts_with("Vec::") {
                serde_units::search(unit)
            } else {
                bigint_units::search(unit, &mut rng)
            };
            match w {
                Some(w) => println!("WITNESS {w}"),
                None => println!("NO-WITNESS"),
            }
        },
        "replay" => {
            let w = args[3].as_str();
            let bad = if unit.starts_with("MontConfig::") {
                replay_one(unit, w)
            } else if unit.starts_with("c09_") || unit.starts_with("c18_") || unit.starts_with("Fp::") || unit.starts_with("Vec::") {
                match serde_units::search(unit) {
                    Some(d) => {
                        println!("{d}");
                        true
                    },
                    None => false,
                }
            } else {
                bigint_units::replay(unit, w)
            };
            std::process::exit(if bad { 1 } else { 0 });
        },
        _ => panic!("mode"),
    }
}
