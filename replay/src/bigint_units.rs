//! witness search for BigInt<N> units against num-bigint
use super::{from_big, to_big, Rng};
use ark_ff::{BigInt, BigInteger};
use num_bigint::BigUint;
use num_traits::{One, Zero};

fn limb_candidates(rng: &mut Rng) -> Vec<u64> {
    let mut v = vec![0, 1, 2, 3, u64::MAX, u64::MAX - 1, 1 << 63, (1 << 63) - 1, (1 << 63) + 1, 1 << 32, 0xffff_ffff];
    for _ in 0..3 {
        v.push(rng.next());
    }
    v
}

fn values<const N: usize>(rng: &mut Rng) -> Vec<BigInt<N>> {
    let c = limb_candidates(rng);
    let mut out = vec![];
    if N == 1 {
        for a in &c {
            out.push(BigInt([*a; N]));
        }
    } else {
        // all combinations on the two extreme limbs, a few fillers in between
        for a in &c {
            for b in &c {
                for f in [0u64, u64::MAX, rng.next()] {
                    let mut l = [f; N];
                    l[0] = *a;
                    l[N - 1] = *b;
                    out.push(BigInt(l));
                }
            }
        }
    }
    out
}

/// returns Some((got, expected)) as strings when they differ
fn check<const N: usize>(unit: &str, x: &BigInt<N>, y: &BigInt<N>, sh: u32) -> Option<(String, String)> {
    let m = BigUint::one() << (64 * N);
    let (bx, by) = (to_big(x), to_big(y));
    let cmp = |g: String, e: String| if g != e { Some((g, e)) } else { None };
    match unit {
        "BigInt::add_with_carry" | "BigInt::const_add_with_carry" => {
            let mut a = *x;
            let c = a.add_with_carry(y);
            let s = &bx + &by;
            cmp(format!("{} carry={}", to_big(&a), c), format!("{} carry={}", &s % &m, s >= m))
        },
        "BigInt::sub_with_borrow" | "BigInt::const_sub_with_borrow" => {
            let mut a = *x;
            let c = a.sub_with_borrow(y);
            let s = (&bx + &m - &by) % &m;
            cmp(format!("{} borrow={}", to_big(&a), c), format!("{} borrow={}", s, bx < by))
        },
        "BigInt::mul2" | "BigInt::const_mul2_with_carry" => {
            let mut a = *x;
            let c = a.mul2();
            let s = &bx << 1;
            cmp(format!("{} carry={}", to_big(&a), c), format!("{} carry={}", &s % &m, s >= m))
        },
        "BigInt::div2" | "BigInt::const_shr" => {
            let mut a = *x;
            a.div2();
            cmp(format!("{}", to_big(&a)), format!("{}", &bx >> 1))
        },
        "BigInt::mul" | "BigInt::mul_low" | "BigInt::mul_high" => {
            let (lo, hi) = x.mul(y);
            let pr = &bx * &by;
            let l2 = x.mul_low(y);
            let h2 = x.mul_high(y);
            cmp(format!("lo={} hi={} mul_low={} mul_high={}", to_big(&lo), to_big(&hi), to_big(&l2), to_big(&h2)),
                format!("lo={} hi={} mul_low={} mul_high={}", &pr % &m, &pr >> (64 * N), &pr % &m, &pr >> (64 * N)))
        },
        "BigInt::shl_assign" | "BigInt::muln" => {
            let mut a = *x;
            a <<= sh;
            #[allow(deprecated)]
            let mut a2 = *x;
            #[allow(deprecated)]
            a2.muln(sh);
            let e = (&bx << (sh as usize)) % &m;
            cmp(format!("shl={} muln={}", to_big(&a), to_big(&a2)), format!("shl={} muln={}", e, e))
        },
        "BigInt::shr_assign" | "BigInt::divn" => {
            let mut a = *x;
            a >>= sh;
            #[allow(deprecated)]
            let mut a2 = *x;
            #[allow(deprecated)]
            a2.divn(sh);
            let e = &bx >> (sh as usize);
            cmp(format!("shr={} divn={}", to_big(&a), to_big(&a2)), format!("shr={} divn={}", e, e))
        },
        "BigInt::cmp" | "BigInt::const_geq" | "BigInt::partial_cmp" => cmp(format!("{:?}", x.cmp(y)), format!("{:?}", bx.cmp(&by))),
        "BigInt::is_odd" | "BigInt::is_even" | "BigInt::const_is_even" | "BigInt::const_is_odd" => {
            cmp(format!("{} {}", x.is_odd(), x.is_even()), format!("{} {}", bx.bit(0), !bx.bit(0)))
        },
        "BigInt::get_bit" => {
            for i in 0..(64 * N + 70) {
                if x.get_bit(i) != bx.bit(i as u64) {
                    return Some((format!("bit {i} = {}", x.get_bit(i)), format!("bit {i} = {}", bx.bit(i as u64))));
                }
            }
            None
        },
        "BigInt::num_bits" | "BigInt::const_num_bits" => cmp(format!("{}", x.num_bits()), format!("{}", bx.bits())),
        "BigInt::not" => cmp(format!("{}", to_big(&!*x)), format!("{}", &m - 1u8 - &bx)),
        "BigInt::const_is_zero" | "BigInt::is_zero" => cmp(format!("{}", x.is_zero()), format!("{}", bx.is_zero())),
        "BigInt::find_naf" | "BigInt::find_relaxed_naf" | "c15_find_naf_n1_high" | "c15_relaxed_naf_small" => {
            for relaxed in [false, true] {
                let d = if relaxed { ark_ff::biginteger::arithmetic::find_relaxed_naf(&x.0) } else { ark_ff::biginteger::arithmetic::find_naf(&x.0) };
                let mut acc = num_bigint::BigInt::zero();
                for (i, z) in d.iter().enumerate() {
                    acc += num_bigint::BigInt::from(*z) << i;
                }
                if acc != num_bigint::BigInt::from(bx.clone()) {
                    return Some((format!("relaxed={relaxed} reconstructs {acc}"), format!("{bx}")));
                }
            }
            None
        },
        "BigInt::find_wnaf" | "BigInteger::find_wnaf" | "c15_find_wnaf_n1_high" => {
            // every window the API accepts (2..=63), plus the rejected ones
            for w in (2..=8usize).chain([16, 31, 32, 33, 62, 63]) {
                let xc = *x;
                let r = std::panic::catch_unwind(move || xc.find_wnaf(w));
                let d = match r {
                    Ok(Some(d)) => d,
                    Ok(None) => return Some((format!("w={w} rejected"), format!("{bx}"))),
                    Err(_) => return Some((format!("w={w} panics"), format!("{bx}"))),
                };
                let mut acc = num_bigint::BigInt::zero();
                for (i, z) in d.iter().enumerate() {
                    acc += num_bigint::BigInt::from(*z) << i;
                }
                if acc != num_bigint::BigInt::from(bx.clone()) {
                    return Some((format!("w={w} reconstructs {acc}"), format!("{bx}")));
                }
                // digit constraints: zero or odd with |z| < 2^(w-1); a non-zero digit is followed by w-1 zeros
                let lim = 1i128 << (w - 1);
                for (i, z) in d.iter().enumerate() {
                    if *z != 0 {
                        if z % 2 == 0 || (*z as i128).abs() >= lim { return Some((format!("w={w}: digit {z} at position {i} violates the digit constraint"), format!("{bx}"))); }
                        if d[i + 1..].iter().take(w - 1).any(|y| *y != 0) { return Some((format!("w={w}: non-zero digits closer than w at position {i}"), format!("{bx}"))); }
                    }
                }
            }
            if x.find_wnaf(1).is_some() || x.find_wnaf(64).is_some() || x.find_wnaf(0).is_some() { return Some(("window outside 2..64 accepted".into(), format!("{bx}"))); }
            None
        },
        _ => None,
    }
}

pub static CASES: std::sync::atomic::AtomicU64 = std::sync::atomic::AtomicU64::new(0);
fn run<const N: usize>(unit: &str, rng: &mut Rng) -> Option<String> {
    let vs = values::<N>(rng);
    let shifts: Vec<u32> = if unit.contains("sh") || unit.contains("muln") || unit.contains("divn") {
        let mut s = vec![0u32, 1, 63, 64, 65, 127, 128, 129];
        s.push((64 * N) as u32 - 1);
        s.push((64 * N) as u32);
        s.push((64 * N) as u32 + 1);
        s.push(100_000);
        s
    } else {
        vec![0]
    };
    let unary = !matches!(unit, "BigInt::add_with_carry" | "BigInt::sub_with_borrow" | "BigInt::mul" | "BigInt::mul_low" | "BigInt::mul_high" | "BigInt::cmp" | "BigInt::const_geq" | "BigInt::partial_cmp" | "BigInt::const_add_with_carry" | "BigInt::const_sub_with_borrow");
    for x in &vs {
        let ys: Vec<BigInt<N>> = if unary { vec![*x] } else { vs.clone() };
        for y in &ys {
            for sh in &shifts {
                CASES.fetch_add(1, std::sync::atomic::Ordering::Relaxed);
                let r = std::panic::catch_unwind(|| check::<N>(unit, x, y, *sh));
                match r {
                    Ok(None) => {},
                    Ok(Some((g, e))) => return Some(format!("N={N};{};{};{};got={g};expected={e}", to_big(x), to_big(y), sh)),
                    Err(_) => return Some(format!("N={N};{};{};{};got=panic;expected=value", to_big(x), to_big(y), sh)),
                }
            }
        }
    }
    None
}

pub fn search(unit: &str, rng: &mut Rng) -> Option<String> {
    run::<1>(unit, rng).or_else(|| run::<2>(unit, rng)).or_else(|| run::<3>(unit, rng)).or_else(|| run::<4>(unit, rng))
}

pub fn replay(unit: &str, w: &str) -> bool {
    let parts: Vec<&str> = w.split(';').collect();
    let n: usize = parts[0].trim_start_matches("N=").parse().unwrap();
    let x: BigUint = parts[1].parse().unwrap();
    let y: BigUint = parts[2].parse().unwrap();
    let sh: u32 = parts[3].parse().unwrap();
    macro_rules! go {
        ($n:expr) => {{
            let r = std::panic::catch_unwind(|| check::<$n>(unit, &from_big::<$n>(&x), &from_big::<$n>(&y), sh));
            match r {
                Ok(None) => {
                    println!("{unit} N={n} x={x} y={y} shift={sh}: agrees with the integer oracle");
                    false
                },
                Ok(Some((g, e))) => {
                    println!("{unit} N={n} x={x} y={y} shift={sh}: got {g}; integer oracle {e}");
                    true
                },
                Err(_) => {
                    println!("{unit} N={n} x={x} y={y} shift={sh}: PANIC");
                    true
                },
            }
        }};
    }
    match n {
        1 => go!(1),
        2 => go!(2),
        3 => go!(3),
        _ => go!(4),
    }
}
