//! "Plain" prime-field backends: an `FpConfig<1>` whose element representation is the canonical integer itself and
//! whose arithmetic is one line of u128 `%` arithmetic.  They are *configurations* for the real generic code
//! (`Fp<P, N>`, extension templates, curve models, polynomials, serialization), chosen because Kani cannot digest the
//! Montgomery backend (12x12 `unroll_for_loops` expansion of the trait defaults: goto-instrument runs out of memory).
//! What runs under test is arkworks' generic code; only the leaf arithmetic is this toy backend.
use ark_ff::{BigInt, Fp, FpConfig, SqrtPrecomputation};
use core::marker::PhantomData;

#[macro_export]
macro_rules! plain_field {
    ($cfg:ident, $ty:ident, $p:expr, $gen:expr, $two_adicity:expr, $root:expr) => {
        pub struct $cfg;
        pub type $ty = ark_ff::Fp<$cfg, 1>;
        impl ark_ff::FpConfig<1> for $cfg {
            const MODULUS: ark_ff::BigInt<1> = ark_ff::BigInt([$p]);
            const GENERATOR: ark_ff::Fp<Self, 1> = ark_ff::Fp(ark_ff::BigInt([$gen]), core::marker::PhantomData);
            const ZERO: ark_ff::Fp<Self, 1> = ark_ff::Fp(ark_ff::BigInt([0]), core::marker::PhantomData);
            const ONE: ark_ff::Fp<Self, 1> = ark_ff::Fp(ark_ff::BigInt([1]), core::marker::PhantomData);
            const TWO_ADICITY: u32 = $two_adicity;
            const TWO_ADIC_ROOT_OF_UNITY: ark_ff::Fp<Self, 1> = ark_ff::Fp(ark_ff::BigInt([$root]), core::marker::PhantomData);
            const SQRT_PRECOMP: Option<ark_ff::SqrtPrecomputation<ark_ff::Fp<Self, 1>>> = if $p % 4 == 3 {
                Some(ark_ff::SqrtPrecomputation::Case3Mod4 { modulus_plus_one_div_four: &[($p + 1) / 4] })
            } else {
                Some(ark_ff::SqrtPrecomputation::TonelliShanks {
                    two_adicity: $two_adicity,
                    quadratic_nonresidue_to_trace: ark_ff::Fp(ark_ff::BigInt([$root]), core::marker::PhantomData),
                    trace_of_modulus_minus_one_div_two: &[((($p - 1) >> $two_adicity) - 1) / 2],
                })
            };
            fn add_assign(a: &mut ark_ff::Fp<Self, 1>, b: &ark_ff::Fp<Self, 1>) {
                (a.0).0[0] = (((a.0).0[0] as u128 + (b.0).0[0] as u128) % ($p as u128)) as u64;
            }
            fn sub_assign(a: &mut ark_ff::Fp<Self, 1>, b: &ark_ff::Fp<Self, 1>) {
                (a.0).0[0] = (((a.0).0[0] as u128 + ($p as u128) - (b.0).0[0] as u128) % ($p as u128)) as u64;
            }
            fn double_in_place(a: &mut ark_ff::Fp<Self, 1>) {
                (a.0).0[0] = ((2 * ((a.0).0[0] as u128)) % ($p as u128)) as u64;
            }
            fn neg_in_place(a: &mut ark_ff::Fp<Self, 1>) {
                (a.0).0[0] = ((($p as u128) - (a.0).0[0] as u128) % ($p as u128)) as u64;
            }
            fn mul_assign(a: &mut ark_ff::Fp<Self, 1>, b: &ark_ff::Fp<Self, 1>) {
                (a.0).0[0] = (((a.0).0[0] as u128 * (b.0).0[0] as u128) % ($p as u128)) as u64;
            }
            fn sum_of_products<const T: usize>(a: &[ark_ff::Fp<Self, 1>; T], b: &[ark_ff::Fp<Self, 1>; T]) -> ark_ff::Fp<Self, 1> {
                let mut acc: u128 = 0;
                let mut i = 0;
                while i < T {
                    acc = (acc + ((a[i].0).0[0] as u128 * (b[i].0).0[0] as u128) % ($p as u128)) % ($p as u128);
                    i += 1;
                }
                ark_ff::Fp(ark_ff::BigInt([acc as u64]), core::marker::PhantomData)
            }
            fn square_in_place(a: &mut ark_ff::Fp<Self, 1>) {
                (a.0).0[0] = (((a.0).0[0] as u128 * (a.0).0[0] as u128) % ($p as u128)) as u64;
            }
            fn inverse(a: &ark_ff::Fp<Self, 1>) -> Option<ark_ff::Fp<Self, 1>> {
                // tiny moduli only: linear search keeps CBMC's formula small and is obviously right
                let x = (a.0).0[0];
                if x == 0 {
                    return None;
                }
                let mut y: u64 = 1;
                while y < $p {
                    if (x as u128 * y as u128) % ($p as u128) == 1 {
                        return Some(ark_ff::Fp(ark_ff::BigInt([y]), core::marker::PhantomData));
                    }
                    y += 1;
                }
                None
            }
            fn from_bigint(other: ark_ff::BigInt<1>) -> Option<ark_ff::Fp<Self, 1>> {
                if other.0[0] < $p { Some(ark_ff::Fp(other, core::marker::PhantomData)) } else { None }
            }
            fn into_bigint(other: ark_ff::Fp<Self, 1>) -> ark_ff::BigInt<1> {
                other.0
            }
        }
    };
}

// p, generator, two-adicity, 2^s-th root of unity (generator^((p-1)/2^s))
plain_field!(P7, F7, 7u64, 3u64, 1, 6u64);
plain_field!(P13, F13, 13u64, 2u64, 2, 8u64); // 2^3 = 8 has order 4
plain_field!(P17, F17, 17u64, 3u64, 4, 3u64); // 3 has order 16
plain_field!(P97, F97, 97u64, 5u64, 5, 28u64); // 5^3 = 125 = 28 (order 32)
plain_field!(P101, F101, 101u64, 2u64, 2, 10u64); // 2^25 mod 101 = 10 (order 4)
plain_field!(P61, F61, 2305843009213693951u64, 37u64, 1, 2305843009213693950u64);
plain_field!(P64, F64, 18446744073709551557u64, 2u64, 2, 18446744073709551556u64);
