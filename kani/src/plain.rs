//! "Plain" prime-field backends: an `FpConfig<1>` whose element representation is the canonical integer itself and
//! whose arithmetic is one line of u128 `%` arithmetic.  They are *configurations* for the real generic code
//! (`Fp<P, N>`, extension templates, curve models, polynomials, serialization), chosen because Kani cannot digest the
//! Montgomery backend (12x12 `unroll_for_loops` expansion of the trait defaults: goto-instrument runs out of memory).
//! What runs under test is arkworks' generic code; only the leaf arithmetic is this toy backend.
use ark_ff::{BigInt, Fp, FpConfig, SqrtPrecomputation};
use core::marker::PhantomData;

#[macro_export]
macro_rules! plain_field {
    ($cfg:ident, $ty:ident, $w:ty, $p:expr, $gen:expr, $two_adicity:expr, $root:expr) => {
        pub struct $cfg;
        pub type $ty = ark_ff::Fp<$cfg, 1>;
        impl ark_ff::FpConfig<1> for $cfg {
            const MODULUS: ark_ff::BigInt<1> = ark_ff::BigInt([$p]);
            const GENERATOR: ark_ff::Fp<Self, 1> = ark_ff::Fp(ark_ff::BigInt([$gen]), core::marker::PhantomData);
            const ZERO: ark_ff::Fp<Self, 1> = ark_ff::Fp(ark_ff::BigInt([0]), core::marker::PhantomData);
            const ONE: ark_ff::Fp<Self, 1> = ark_ff::Fp(ark_ff::BigInt([1]), core::marker::PhantomData);
            const TWO_ADICITY: u32 = $two_adicity;
            const TWO_ADIC_ROOT_OF_UNITY: ark_ff::Fp<Self, 1> = ark_ff::Fp(ark_ff::BigInt([$root]), core::marker::PhantomData);
            const SQRT_PRECOMP: Option<ark_ff::SqrtPrecomputation<ark_ff::Fp<Self, 1>>> = if $p % 4 == 3 {
                Some(ark_ff::SqrtPrecomputation::Case3Mod4 { modulus_plus_one_div_four: &[($p + 1) / 4] })
            } else {
                Some(ark_ff::SqrtPrecomputation::TonelliShanks {
                    two_adicity: $two_adicity,
                    quadratic_nonresidue_to_trace: ark_ff::Fp(ark_ff::BigInt([$root]), core::marker::PhantomData),
                    trace_of_modulus_minus_one_div_two: &[((($p - 1) >> $two_adicity) - 1) / 2],
                })
            };
            fn add_assign(a: &mut ark_ff::Fp<Self, 1>, b: &ark_ff::Fp<Self, 1>) {
                (a.0).0[0] = (((a.0).0[0] as $w + (b.0).0[0] as $w) % ($p as $w)) as u64;
            }
            fn sub_assign(a: &mut ark_ff::Fp<Self, 1>, b: &ark_ff::Fp<Self, 1>) {
                (a.0).0[0] = (((a.0).0[0] as $w + ($p as $w) - (b.0).0[0] as $w) % ($p as $w)) as u64;
            }
            fn double_in_place(a: &mut ark_ff::Fp<Self, 1>) {
                (a.0).0[0] = ((2 * ((a.0).0[0] as $w)) % ($p as $w)) as u64;
            }
            fn neg_in_place(a: &mut ark_ff::Fp<Self, 1>) {
                (a.0).0[0] = ((($p as $w) - (a.0).0[0] as $w) % ($p as $w)) as u64;
            }
            fn mul_assign(a: &mut ark_ff::Fp<Self, 1>, b: &ark_ff::Fp<Self, 1>) {
                (a.0).0[0] = (((a.0).0[0] as $w * (b.0).0[0] as $w) % ($p as $w)) as u64;
            }
            fn sum_of_products<const T: usize>(a: &[ark_ff::Fp<Self, 1>; T], b: &[ark_ff::Fp<Self, 1>; T]) -> ark_ff::Fp<Self, 1> {
                let mut acc: $w = 0;
                let mut i = 0;
                while i < T {
                    acc = (acc + ((a[i].0).0[0] as $w * (b[i].0).0[0] as $w) % ($p as $w)) % ($p as $w);
                    i += 1;
                }
                ark_ff::Fp(ark_ff::BigInt([acc as u64]), core::marker::PhantomData)
            }
            fn square_in_place(a: &mut ark_ff::Fp<Self, 1>) {
                (a.0).0[0] = (((a.0).0[0] as $w * (a.0).0[0] as $w) % ($p as $w)) as u64;
            }
            fn inverse(a: &ark_ff::Fp<Self, 1>) -> Option<ark_ff::Fp<Self, 1>> {
                // tiny moduli only: linear search keeps CBMC's formula small and is obviously right
                let x = (a.0).0[0];
                if x == 0 {
                    return None;
                }
                let mut y: u64 = 1;
                while y < $p {
                    if (x as $w * y as $w) % ($p as $w) == 1 {
                        return Some(ark_ff::Fp(ark_ff::BigInt([y]), core::marker::PhantomData));
                    }
                    y += 1;
                }
                None
            }
            fn from_bigint(other: ark_ff::BigInt<1>) -> Option<ark_ff::Fp<Self, 1>> {
                if other.0[0] < $p { Some(ark_ff::Fp(other, core::marker::PhantomData)) } else { None }
            }
            fn into_bigint(other: ark_ff::Fp<Self, 1>) -> ark_ff::BigInt<1> {
                other.0
            }
        }
    };
}

// p, generator, two-adicity, 2^s-th root of unity (generator^((p-1)/2^s)); arithmetic width chosen so that p^2 fits
plain_field!(P7, F7, u32, 7u64, 3u64, 1, 6u64);
plain_field!(P13, F13, u32, 13u64, 2u64, 2, 8u64); // 2^3 = 8 has order 4
plain_field!(P17, F17, u32, 17u64, 3u64, 4, 3u64); // 3 has order 16
plain_field!(P97, F97, u32, 97u64, 5u64, 5, 28u64); // 5^3 = 28 has order 32
plain_field!(P101, F101, u32, 101u64, 2u64, 2, 10u64); // 2^25 mod 101 = 10 (order 4)
plain_field!(P251, F251, u32, 251u64, 6u64, 1, 250u64); // 8-bit modulus (bit length multiple of 8)
plain_field!(P61, F61, u128, 2305843009213693951u64, 37u64, 1, 2305843009213693950u64);
plain_field!(P63, F63, u128, 9223372036854775783u64, 3u64, 1, 9223372036854775782u64); // 2^63 - 25: exactly one spare bit
plain_field!(P64, F64, u128, 18446744073709551557u64, 2u64, 2, 18446744073709551556u64);

/// a symbolic, canonical element of a plain field
pub fn any_fp<P: ark_ff::FpConfig<1>>() -> ark_ff::Fp<P, 1> {
    let x: u64 = kani::any();
    kani::assume(x < P::MODULUS.0[0]);
    ark_ff::Fp(ark_ff::BigInt([x]), core::marker::PhantomData)
}
pub fn raw<P: ark_ff::FpConfig<1>>(x: &ark_ff::Fp<P, 1>) -> u64 {
    (x.0).0[0]
}
