//! Kani harnesses on the REAL arkworks crates (path dependencies on /repo).
//! `complete` harnesses: loop-free or fully unwound (unwinding assertions on) over the full symbolic input domain.
//! `bounded` harnesses: toy configuration and/or length bound, stated per harness; never counted as proved.
#![allow(unused)]
#[cfg(kani)]
pub mod plain;
#[cfg(kani)]
mod bigint;
#[cfg(kani)]
mod ser;
#[cfg(kani)]
mod field;
#[cfg(kani)]
mod poly;
