//! C07 / C08 / C17 on the REAL ark-poly code over plain toy fields (bounded: field and sizes stated per harness).
use crate::plain::*;
use ark_ff::{Field, One, Zero};
use ark_poly::{
    univariate::{DenseOrSparsePolynomial, DensePolynomial, SparsePolynomial},
    DenseMultilinearExtension, DenseUVPolynomial, EvaluationDomain, MultilinearExtension, Polynomial, Radix2EvaluationDomain,
};

/// independent oracle: value of sum c_i x^i
fn eval7(c: &[F7], x: F7) -> F7 {
    let mut acc = F7::zero();
    let mut i = c.len();
    while i > 0 { i -= 1; acc = acc * x + c[i]; }
    acc
}
/// a coefficient vector of FIXED length `len` with symbolic entries: shorter polynomials are covered through
/// symbolic leading zeros (from_coefficients_vec truncates them), which keeps CBMC's loops concrete
fn any_vec7(len: usize) -> Vec<F7> {
    let mut v = Vec::new();
    let mut i = 0;
    while i < len { v.push(any_fp::<P7>()); i += 1; }
    v
}
fn canonical(p: &DensePolynomial<F7>) -> bool { p.coeffs.last().map_or(true, |c| !c.is_zero()) }

/// dense + - neg scale: pointwise at every x of F_7 (degree <= 2 polynomials are determined by 7 values), result canonical
#[kani::proof]
#[kani::unwind(6)]
fn c08_dense_add_sub_f7() {
    let a = any_vec7(3);
    let b = any_vec7(3);
    let pa = DensePolynomial::from_coefficients_vec(a.clone());
    let pb = DensePolynomial::from_coefficients_vec(b.clone());
    assert!(canonical(&pa) && canonical(&pb));
    let x = any_fp::<P7>();
    let s = &pa + &pb;
    assert!(canonical(&s) && eval7(&s.coeffs, x) == eval7(&a, x) + eval7(&b, x));
    let d = &pa - &pb;
    assert!(canonical(&d) && eval7(&d.coeffs, x) == eval7(&a, x) - eval7(&b, x));
    let mut t = pa.clone();
    t += &pb;
    assert!(canonical(&t) && t == s);
    let n = -pa.clone();
    assert!(canonical(&n) && eval7(&n.coeffs, x) == -eval7(&a, x));
    let k = any_fp::<P7>();
    let sc = &pa * k;
    assert!(canonical(&sc) && eval7(&sc.coeffs, x) == k * eval7(&a, x));
    // degree() never panics on results
    let _ = s.degree() + d.degree() + sc.degree();
    assert!(pa.evaluate(&x) == eval7(&a, x));
}

#[kani::proof]
#[kani::unwind(6)]
fn c08_dense_mul_div_f7() {
    let a = any_vec7(3);
    let b = any_vec7(2);
    let pa = DensePolynomial::from_coefficients_vec(a.clone());
    let pb = DensePolynomial::from_coefficients_vec(b.clone());
    let x = any_fp::<P7>();
    let m = pa.naive_mul(&pb);
    assert!(canonical(&m) && eval7(&m.coeffs, x) == eval7(&a, x) * eval7(&b, x));
    if !pb.is_zero() {
        let (q, r) = DenseOrSparsePolynomial::from(&pa).divide_with_q_and_r(&DenseOrSparsePolynomial::from(&pb)).unwrap();
        assert!(canonical(&q) && canonical(&r));
        assert!(eval7(&a, x) == eval7(&q.coeffs, x) * eval7(&b, x) + eval7(&r.coeffs, x));
        assert!(r.is_zero() || r.degree() < pb.degree());
    }
}

/// multiply / divide by the vanishing polynomial of a size-2 domain of F_17 and of its cosets
fn eval17(c: &[F17], x: F17) -> F17 {
    let mut acc = F17::zero();
    let mut i = c.len();
    while i > 0 { i -= 1; acc = acc * x + c[i]; }
    acc
}
#[kani::proof]
#[kani::unwind(8)]
fn c08_vanishing_poly_f17_coset() {
    let mut a = Vec::new();
    let mut i = 0;
    while i < 4 { a.push(any_fp::<P17>()); i += 1; }
    let pa = DensePolynomial::from_coefficients_vec(a.clone());
    let h = any_fp::<P17>();
    kani::assume(!h.is_zero());
    let dom = Radix2EvaluationDomain::<F17>::new(2).unwrap().get_coset(h).unwrap();
    let x = any_fp::<P17>();
    let z = dom.evaluate_vanishing_polynomial(x);
    assert!(z == x * x - h * h);
    let m = pa.mul_by_vanishing_poly(dom);
    assert!(eval17(&m.coeffs, x) == eval17(&a, x) * z);
    let (q, r) = pa.divide_by_vanishing_poly(dom);
    assert!(eval17(&a, x) == eval17(&q.coeffs, x) * z + eval17(&r.coeffs, x));
    assert!(r.coeffs.len() <= 2);
}

// ---- C07: radix-2 FFT over F_17 (two-adicity 4)
macro_rules! fft_harness {
    ($name:ident, $size:expr, $unw:expr) => {
        #[kani::proof]
        #[kani::unwind($unw)]
        fn $name() {
            let coset: bool = kani::any();
            let h = if coset { let h = any_fp::<P17>(); kani::assume(!h.is_zero()); h } else { F17::one() };
            let base = Radix2EvaluationDomain::<F17>::new($size).unwrap();
            assert!(base.size() == $size);
            let dom = base.get_coset(h).unwrap();
            // generator has exactly the reported order
            let g = dom.group_gen();
            let mut p = F17::one();
            let mut k = 0;
            while k < $size { if k > 0 { assert!(!p.is_one()); } p *= g; k += 1; }
            assert!(p.is_one());
            // input length fixed to the domain size (shorter inputs = symbolic trailing zeros) or to half of it
            let short: bool = kani::any();
            let n: usize = if short { $size / 2 } else { $size };
            let mut c = Vec::new();
            let mut q = 0;
            while q < n { c.push(any_fp::<P17>()); q += 1; }
            let ev = dom.fft(&c);
            assert!(ev.len() == $size);
            let i: usize = kani::any();
            kani::assume(i < $size);
            assert!(ev[i] == eval17(&c, dom.element(i)));
            let back = dom.ifft(&ev);
            assert!(back.len() == $size);
            let j: usize = kani::any();
            kani::assume(j < $size);
            assert!(back[j] == if j < n { c[j] } else { F17::zero() });
        }
    };
}
fft_harness!(c07_fft_f17_size2, 2usize, 6);
fft_harness!(c07_fft_f17_size4, 4usize, 8);

/// vanishing polynomial and Lagrange coefficients at an arbitrary point, also a point of the domain (size 4)
#[kani::proof]
#[kani::unwind(8)]
fn c07_lagrange_f17_size4() {
    let dom = Radix2EvaluationDomain::<F17>::new(4).unwrap();
    let tau = any_fp::<P17>();
    let l = dom.evaluate_all_lagrange_coefficients(tau);
    assert!(l.len() == 4);
    // sum_i L_i(tau) f(w^i) = f(tau) for every f of degree < 4: check on the monomial basis via a symbolic f
    let mut c = Vec::new();
    for _ in 0..4 { c.push(any_fp::<P17>()); }
    let mut acc = F17::zero();
    let mut i = 0;
    while i < 4 { acc += l[i] * eval17(&c, dom.element(i)); i += 1; }
    assert!(acc == eval17(&c, tau));
    let tau2 = tau * tau;
    assert!(dom.evaluate_vanishing_polynomial(tau) == tau2 * tau2 - F17::one());
}

// ---- C17: dense multilinear extensions over F_7, 2 variables
#[kani::proof]
#[kani::unwind(8)]
fn c17_dense_mle_f7_nv2() {
    let mut t = Vec::new();
    for _ in 0..4 { t.push(any_fp::<P7>()); }
    let m = DenseMultilinearExtension::from_evaluations_vec(2, t.clone());
    let r0 = any_fp::<P7>();
    let r1 = any_fp::<P7>();
    let one = F7::one();
    // definition: sum over the hypercube of table[b] * eq(r, b); variable 0 is the least significant index bit
    let expect = t[0] * (one - r0) * (one - r1) + t[1] * r0 * (one - r1) + t[2] * (one - r0) * r1 + t[3] * r0 * r1;
    assert!(m.evaluate(&vec![r0, r1]) == expect);
    let f = m.fix_variables(&[r0]);
    assert!(f.num_vars == 1);
    assert!(f.evaluations[0] == t[0] * (one - r0) + t[1] * r0);
    assert!(f.evaluations[1] == t[2] * (one - r0) + t[3] * r0);
    // relabel swaps the two variables
    let sw = m.relabel(0, 1, 1);
    assert!(sw.evaluations[1] == t[2] && sw.evaluations[2] == t[1] && sw.evaluations[0] == t[0] && sw.evaluations[3] == t[3]);
    let s = &m + &m;
    assert!(s.evaluations[3] == t[3] + t[3]);
    let n = -m.clone();
    assert!(n.evaluations[2] == -t[2]);
}
