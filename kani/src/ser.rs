//! C09 / C10 / C18 harnesses on the real serialization code.
use ark_ec::models::short_weierstrass::SWFlags;
use ark_ec::models::twisted_edwards::TEFlags;
use ark_ff::{PrimeField, Zero};
use ark_serialize::{
    buffer_byte_size, CanonicalDeserialize, CanonicalDeserializeWithFlags, CanonicalSerialize, CanonicalSerializeWithFlags, Compress,
    EmptyFlags, Flags, Validate,
};

fn any_compress() -> Compress { if kani::any() { Compress::Yes } else { Compress::No } }
fn any_validate() -> Validate { if kani::any() { Validate::Yes } else { Validate::No } }

/// serialize into a fixed buffer, return bytes written
fn ser<T: CanonicalSerialize>(x: &T, c: Compress, buf: &mut [u8; 48]) -> Option<usize> {
    let mut w: &mut [u8] = &mut buf[..];
    match x.serialize_with_mode(&mut w, c) {
        Ok(()) => Some(48 - w.len()),
        Err(_) => None,
    }
}

macro_rules! roundtrip_prim {
    ($name:ident, $t:ty) => {
        #[kani::proof]
        #[kani::unwind(12)]
        fn $name() {
            let x: $t = kani::any();
            let c = any_compress();
            let mut buf = [0u8; 48];
            let n = ser(&x, c, &mut buf);
            assert!(n == Some(x.serialized_size(c)));
            let n = n.unwrap_or(0);
            let r = <$t>::deserialize_with_mode(&buf[..n], c, any_validate());
            assert!(matches!(r, Ok(y) if y == x));
            // truncated input is an error, never a panic
            let k: usize = kani::any();
            kani::assume(k < n);
            assert!(<$t>::deserialize_with_mode(&buf[..k], c, any_validate()).is_err());
        }
    };
}
roundtrip_prim!(c18_u8, u8);
roundtrip_prim!(c18_u16, u16);
roundtrip_prim!(c18_u32, u32);
roundtrip_prim!(c18_u64, u64);
roundtrip_prim!(c18_i8, i8);
roundtrip_prim!(c18_i16, i16);
roundtrip_prim!(c18_i32, i32);
roundtrip_prim!(c18_i64, i64);
roundtrip_prim!(c18_usize, usize);
roundtrip_prim!(c18_isize, isize);
roundtrip_prim!(c18_bool, bool);
roundtrip_prim!(c18_opt_u16, Option<u16>);
roundtrip_prim!(c18_opt_bool, Option<bool>);
roundtrip_prim!(c18_tuple2, (u8, u32));
roundtrip_prim!(c18_tuple3, (bool, u16, i8));
roundtrip_prim!(c18_arr, [u16; 3]);
roundtrip_prim!(c18_arr_opt, [Option<u8>; 2]);
roundtrip_prim!(c18_unit, ());

/// all byte strings: bool / Option<bool> deserialization rejects everything but 0 and 1, never panics
#[kani::proof]
#[kani::unwind(6)]
fn c18_bool_all_bytes() {
    let b: [u8; 2] = kani::any();
    let r = bool::deserialize_with_mode(&b[..1], any_compress(), any_validate());
    assert!(r.is_ok() == (b[0] <= 1));
    let r = <Option<bool>>::deserialize_with_mode(&b[..], any_compress(), any_validate());
    if b[0] > 1 || (b[0] == 1 && b[1] > 1) {
        assert!(r.is_err());
    } else {
        assert!(r.is_ok());
    }
}

// ---- derive macros: named, tuple and nested-tuple fields
#[derive(CanonicalSerialize, CanonicalDeserialize, PartialEq, Clone, Copy)]
struct Named { a: u16, b: bool, c: Option<u8> }
#[derive(CanonicalSerialize, CanonicalDeserialize, PartialEq, Clone, Copy)]
struct Tup(u8, i32);
#[derive(CanonicalSerialize, CanonicalDeserialize, PartialEq, Clone, Copy)]
struct Nested { x: (u8, (u16, bool)), y: [u8; 2] }

macro_rules! roundtrip_struct {
    ($name:ident, $t:ty, $mk:expr) => {
        #[kani::proof]
        #[kani::unwind(12)]
        fn $name() {
            let x: $t = $mk;
            let c = any_compress();
            let mut buf = [0u8; 48];
            let n = ser(&x, c, &mut buf);
            assert!(n == Some(x.serialized_size(c)));
            let n = n.unwrap_or(0);
            let r = <$t>::deserialize_with_mode(&buf[..n], c, any_validate());
            assert!(matches!(r, Ok(y) if y == x));
            let k: usize = kani::any();
            kani::assume(k < n);
            assert!(<$t>::deserialize_with_mode(&buf[..k], c, any_validate()).is_err());
        }
    };
}
roundtrip_struct!(c18_derive_named, Named, Named { a: kani::any(), b: kani::any(), c: kani::any() });
roundtrip_struct!(c18_derive_tuple, Tup, Tup(kani::any(), kani::any()));
roundtrip_struct!(c18_derive_nested, Nested, Nested { x: (kani::any(), (kani::any(), kani::any())), y: kani::any() });

/// Vec<u8> with a fully symbolic 8-byte length prefix and at most 3 payload bytes available:
/// must return Ok or Err, never panic, never allocate from the untrusted prefix.
#[kani::proof]
#[kani::unwind(6)]
fn c18_vec_u8_untrusted_len() {
    let b: [u8; 11] = kani::any();
    let k: usize = kani::any();
    kani::assume(k <= 11);
    let r = <Vec<u8>>::deserialize_with_mode(&b[..k], any_compress(), any_validate());
    if let Ok(v) = r {
        // accepted only when the prefix equals the number of payload bytes consumed
        assert!(k >= 8 && v.len() <= k - 8);
        let len = u64::from_le_bytes([b[0], b[1], b[2], b[3], b[4], b[5], b[6], b[7]]);
        assert!(v.len() as u64 == len);
    }
}

/// Vec<u16> round trip, length <= 2 (bounded)
#[kani::proof]
#[kani::unwind(6)]
fn c18_vec_u16_roundtrip_len2() {
    let n: usize = kani::any();
    kani::assume(n <= 2);
    let mut v: Vec<u16> = Vec::new();
    for _ in 0..n { v.push(kani::any()); }
    let c = any_compress();
    let mut buf = [0u8; 48];
    let w = ser(&v, c, &mut buf);
    assert!(w == Some(v.serialized_size(c)));
    let w = w.unwrap_or(0);
    let r = <Vec<u16>>::deserialize_with_mode(&buf[..w], c, any_validate());
    assert!(matches!(r, Ok(y) if y == v));
}

// ---- flags: all 256 bytes
#[kani::proof]
fn c09_swflags_all_bytes() {
    let v: u8 = kani::any();
    match SWFlags::from_u8(v) {
        None => assert!(v >> 6 == 3),
        Some(f) => {
            // mask lives in the top BIT_SIZE bits and reproduces those bits of v
            assert!(f.u8_bitmask() & 0x3f == 0);
            assert!(f.u8_bitmask() == v & 0xc0);
            assert!(SWFlags::from_u8(f.u8_bitmask()) == Some(f));
            let mut w = v;
            let g = SWFlags::from_u8_remove_flags(&mut w);
            assert!(g == Some(f) && w == v & 0x3f);
        },
    }
}
#[kani::proof]
fn c09_teflags_all_bytes() {
    let v: u8 = kani::any();
    match TEFlags::from_u8(v) {
        None => assert!(false),
        Some(f) => {
            assert!(f.u8_bitmask() & 0x7f == 0);
            assert!(f.u8_bitmask() == v & 0x80);
            assert!(TEFlags::from_u8(f.u8_bitmask()) == Some(f));
            let mut w = v;
            let g = TEFlags::from_u8_remove_flags(&mut w);
            assert!(g == Some(f) && w == v & 0x7f);
        },
    }
}
#[kani::proof]
fn c09_emptyflags_and_buffer_size() {
    let v: u8 = kani::any();
    let mut w = v;
    assert!(EmptyFlags::from_u8_remove_flags(&mut w).is_some() && w == v);
    let bits: usize = kani::any();
    kani::assume(bits <= 100_000);
    let n = buffer_byte_size(bits);
    assert!(8 * n >= bits && (n == 0 || 8 * (n - 1) < bits));
}

// ---- prime-field encodings: the REAL generic Fp<P,1> codec over plain backends with 7, 3 and 0 spare bits in the top byte
use crate::plain::{F101, F61, F63, F64};

macro_rules! fp_codec {
    ($rt:ident, $uniq:ident, $f:ty, $flags:ty, $len:expr) => {
        /// round trip + size, all elements (given by all canonical integers), all flag values
        #[kani::proof]
        #[kani::unwind(12)]
        fn $rt() {
            let raw: u64 = kani::any();
            let x = match <$f>::from_bigint(ark_ff::BigInt([raw])) { Some(x) => x, None => return };
            let fb: u8 = kani::any();
            let flags = match <$flags>::from_u8(fb) { Some(f) => f, None => return };
            let mut buf = [0u8; 48];
            let written = {
                let mut w: &mut [u8] = &mut buf[..];
                let r = x.serialize_with_flags(&mut w, flags);
                assert!(r.is_ok());
                48 - w.len()
            };
            assert!(written == x.serialized_size_with_flags::<$flags>());
            assert!(written == $len);
            let r = <$f>::deserialize_with_flags::<_, $flags>(&buf[..written]);
            match r {
                Ok((y, g)) => assert!(y == x && g.u8_bitmask() == flags.u8_bitmask()),
                Err(_) => assert!(false),
            }
        }
        /// uniqueness: every byte string of the advertised length that decodes re-encodes to itself; never panics
        #[kani::proof]
        #[kani::unwind(12)]
        fn $uniq() {
            let b: [u8; $len] = kani::any();
            let k: usize = kani::any();
            kani::assume(k <= $len);
            let r = <$f>::deserialize_with_flags::<_, $flags>(&b[..k]);
            match r {
                Ok((y, g)) => {
                    assert!(k == $len);
                    assert!(y.into_bigint() < <$f>::MODULUS);
                    let mut buf = [0u8; 48];
                    let mut w: &mut [u8] = &mut buf[..];
                    assert!(y.serialize_with_flags(&mut w, g).is_ok());
                    let n = 48 - w.len();
                    assert!(n == $len);
                    let mut i = 0;
                    while i < $len { assert!(buf[i] == b[i]); i += 1; }
                },
                Err(_) => {},
            }
        }
    };
}
fp_codec!(c09_f101_empty_rt, c09_f101_empty_uniq, F101, EmptyFlags, 1);
fp_codec!(c09_f101_sw_rt, c09_f101_sw_uniq, F101, SWFlags, 2);
fp_codec!(c09_f61_sw_rt, c09_f61_sw_uniq, F61, SWFlags, 8);
fp_codec!(c09_f61_te_rt, c09_f61_te_uniq, F61, TEFlags, 8);
// one spare bit: the 1-bit TE flag fits in the top byte, the 2-bit SW flag does not (extra byte with 6 must-be-zero bits)
fp_codec!(c09_f63_te_rt, c09_f63_te_uniq, F63, TEFlags, 8);
fp_codec!(c09_f63_sw_rt, c09_f63_sw_uniq, F63, SWFlags, 9);
fp_codec!(c09_f64_empty_rt, c09_f64_empty_uniq, F64, EmptyFlags, 8);
fp_codec!(c09_f64_sw_rt, c09_f64_sw_uniq, F64, SWFlags, 9);
