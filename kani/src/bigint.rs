use ark_ff::{BigInt, BigInteger};

fn v2(x: &BigInt<2>) -> u128 { (x.0[0] as u128) | ((x.0[1] as u128) << 64) }
fn any2() -> BigInt<2> { BigInt([kani::any(), kani::any()]) }

// ---- complete for N = 1, 2 (all operands): iterator-based operations that Verus cannot take
#[kani::proof]
#[kani::unwind(4)]
fn c15_div2_n2() {
    let x = any2();
    let mut y = x;
    y.div2();
    assert!(v2(&y) == v2(&x) >> 1);
}

#[kani::proof]
#[kani::unwind(4)]
fn c15_shr_n2() {
    let x = any2();
    let s: u32 = kani::any();
    let mut y = x;
    y >>= s;
    let e = if s >= 128 { 0 } else { v2(&x) >> s };
    assert!(v2(&y) == e);
}

#[kani::proof]
#[kani::unwind(4)]
fn c15_shl_n2() {
    let x = any2();
    let s: u32 = kani::any();
    let mut y = x;
    y <<= s;
    let e = if s >= 128 { 0 } else { v2(&x) << s };
    assert!(v2(&y) == e);
}

#[kani::proof]
#[kani::unwind(4)]
fn c15_num_bits_n2() {
    let x = any2();
    let e = 128 - v2(&x).leading_zeros();
    assert!(x.num_bits() == e);
}

#[kani::proof]
#[kani::unwind(4)]
fn c15_is_zero_n2() {
    let x = any2();
    assert!(x.is_zero() == (v2(&x) == 0));
}

#[kani::proof]
#[kani::unwind(4)]
fn c15_bitops_n2() {
    let x = any2();
    let y = any2();
    assert!(v2(&(x ^ y)) == v2(&x) ^ v2(&y));
    assert!(v2(&(x & y)) == v2(&x) & v2(&y));
    assert!(v2(&(x | y)) == v2(&x) | v2(&y));
}

// ---- N = 3: shifts by whole-limb multiples and beyond (192-bit oracle written with limbs)
fn any3() -> BigInt<3> { BigInt([kani::any(), kani::any(), kani::any()]) }
fn bit3(x: &BigInt<3>, i: u32) -> bool { if i >= 192 { false } else { (x.0[(i / 64) as usize] >> (i % 64)) & 1 == 1 } }

#[kani::proof]
#[kani::unwind(5)]
fn c15_shl_n3() {
    let x = any3();
    let s: u32 = kani::any();
    let mut y = x;
    y <<= s;
    let i: u32 = kani::any();
    kani::assume(i < 192);
    let e = if s >= 192 || i < s { false } else { bit3(&x, i - s) };
    assert!(bit3(&y, i) == e);
}
#[kani::proof]
#[kani::unwind(5)]
fn c15_shr_n3() {
    let x = any3();
    let s: u32 = kani::any();
    let mut y = x;
    y >>= s;
    let i: u32 = kani::any();
    kani::assume(i < 192);
    let e = if s >= 192 || (i as u64 + s as u64) >= 192 { false } else { bit3(&x, i + s) };
    assert!(bit3(&y, i) == e);
}
#[kani::proof]
#[kani::unwind(5)]
fn c15_div2_mul2_n3() {
    let x = any3();
    let mut y = x;
    y.div2();
    let i: u32 = kani::any();
    kani::assume(i < 192);
    assert!(bit3(&y, i) == bit3(&x, i + 1));
    let mut z = x;
    let c = z.mul2();
    assert!(c == bit3(&x, 191));
    assert!(bit3(&z, i) == (i > 0 && bit3(&x, i - 1)));
}
#[kani::proof]
#[kani::unwind(27)]
fn c15_num_bits_bytes_n3() {
    let x = any3();
    let nb = x.num_bits();
    assert!(nb <= 192);
    if nb > 0 { assert!(bit3(&x, nb - 1)); }
    let i: u32 = kani::any();
    kani::assume(i < 192);
    if i >= nb { assert!(!bit3(&x, i)); }
    // bytes, both endiannesses
    let le = x.to_bytes_le();
    let be = x.to_bytes_be();
    assert!(le.len() == 24 && be.len() == 24);
    let k: usize = kani::any();
    kani::assume(k < 24);
    let e = (x.0[k / 8] >> (8 * (k % 8))) as u8;
    assert!(le[k] == e && be[23 - k] == e);
}

/// NAF / relaxed NAF of every 2-limb value whose top limb is < 4 (bounded: 66 digits), reconstruct the value and obey the digit rules
#[kani::proof]
#[kani::unwind(72)]
fn c15_find_naf_n2_small_top() {
    let lo: u64 = kani::any();
    let hi: u64 = kani::any();
    kani::assume(hi < 2);
    let v = [lo, hi];
    let d = ark_ff::biginteger::arithmetic::find_naf(&v);
    assert!(d.len() <= 67);
    let mut acc: i128 = 0;
    let mut i = d.len();
    let mut prev_nonzero = false;
    while i > 0 {
        i -= 1;
        let z = d[i];
        assert!(z == 0 || z == 1 || z == -1);
        assert!(!(prev_nonzero && z != 0));
        prev_nonzero = z != 0;
        acc = acc * 2 + z as i128;
    }
    assert!(acc == ((hi as i128) << 64) + lo as i128);
}

/// NAF / wNAF of the 1-limb values within 4 of 2^64 (where e + |z| carries out of the limb) reconstruct the value
#[kani::proof]
#[kani::unwind(70)]
fn c15_find_naf_n1_high() {
    let d: u64 = kani::any();
    kani::assume(d < 4);
    let x = u64::MAX - d;
    let digits = ark_ff::biginteger::arithmetic::find_naf(&[x]);
    let mut acc: i128 = 0;
    let mut i = digits.len();
    while i > 0 { i -= 1; acc = acc * 2 + digits[i] as i128; }
    assert!(acc == x as i128);
}
#[kani::proof]
#[kani::unwind(70)]
fn c15_find_wnaf_n1_high() {
    let d: u64 = kani::any();
    kani::assume(d < 4);
    let x = BigInt::<1>([u64::MAX - d]);
    let w: usize = kani::any();
    kani::assume(w >= 2 && w <= 4);
    let digits = x.find_wnaf(w).unwrap();
    let mut acc: i128 = 0;
    let mut i = digits.len();
    while i > 0 { i -= 1; acc = acc * 2 + digits[i] as i128; }
    assert!(acc == (u64::MAX - d) as i128);
}
#[kani::proof]
#[kani::unwind(12)]
fn c15_relaxed_naf_small() {
    let x: u64 = kani::any();
    kani::assume(x < 64);
    let digits = ark_ff::biginteger::arithmetic::find_relaxed_naf(&[x]);
    let mut acc: i128 = 0;
    let mut i = digits.len();
    while i > 0 { i -= 1; acc = acc * 2 + digits[i] as i128; }
    assert!(acc == x as i128);
}
