use ark_ff::{BigInt, BigInteger};

fn v2(x: &BigInt<2>) -> u128 { (x.0[0] as u128) | ((x.0[1] as u128) << 64) }
fn any2() -> BigInt<2> { BigInt([kani::any(), kani::any()]) }

// ---- complete for N = 1, 2 (all operands): iterator-based operations that Verus cannot take
#[kani::proof]
#[kani::unwind(4)]
fn c15_div2_n2() {
    let x = any2();
    let mut y = x;
    y.div2();
    assert!(v2(&y) == v2(&x) >> 1);
}

#[kani::proof]
#[kani::unwind(4)]
fn c15_shr_n2() {
    let x = any2();
    let s: u32 = kani::any();
    let mut y = x;
    y >>= s;
    let e = if s >= 128 { 0 } else { v2(&x) >> s };
    assert!(v2(&y) == e);
}

#[kani::proof]
#[kani::unwind(4)]
fn c15_shl_n2() {
    let x = any2();
    let s: u32 = kani::any();
    let mut y = x;
    y <<= s;
    let e = if s >= 128 { 0 } else { v2(&x) << s };
    assert!(v2(&y) == e);
}

#[kani::proof]
#[kani::unwind(4)]
fn c15_num_bits_n2() {
    let x = any2();
    let e = 128 - v2(&x).leading_zeros();
    assert!(x.num_bits() == e);
}

#[kani::proof]
#[kani::unwind(4)]
fn c15_is_zero_n2() {
    let x = any2();
    assert!(x.is_zero() == (v2(&x) == 0));
}

#[kani::proof]
#[kani::unwind(4)]
fn c15_bitops_n2() {
    let x = any2();
    let y = any2();
    assert!(v2(&(x ^ y)) == v2(&x) ^ v2(&y));
    assert!(v2(&(x & y)) == v2(&x) & v2(&y));
    assert!(v2(&(x | y)) == v2(&x) | v2(&y));
}
