//! C01 (generic field layer) and C11 (square roots) on the REAL generic code over plain toy backends.
use crate::plain::*;
use ark_ff::{batch_inversion_and_mul, AdditiveGroup, Field, LegendreSymbol, One, PrimeField, Zero};

fn mk<P: ark_ff::FpConfig<1>>(x: u64) -> ark_ff::Fp<P, 1> { ark_ff::Fp(ark_ff::BigInt([x]), core::marker::PhantomData) }

/// batch inversion with a symbolic coefficient, length <= 3, zeros and ones included
#[kani::proof]
#[kani::unwind(10)]
fn c01_batch_inversion_f7_len3() {
    let n: usize = kani::any();
    kani::assume(n <= 3);
    let mut v: Vec<F7> = Vec::new();
    for _ in 0..n { v.push(any_fp::<P7>()); }
    let orig = v.clone();
    let c = any_fp::<P7>();
    batch_inversion_and_mul(&mut v, &c);
    let mut i = 0;
    while i < n {
        if orig[i].is_zero() { assert!(v[i].is_zero()); }
        else { assert!(v[i] * orig[i] == c); }
        i += 1;
    }
}

/// pow for a list of concrete exponents (symbolic base) equals repeated multiplication
#[kani::proof]
#[kani::unwind(70)]
fn c01_pow_f13_fixed_exponents() {
    let x = any_fp::<P13>();
    let x2 = x * x; let x3 = x2 * x; let x4 = x2 * x2; let x6 = x3 * x3; let x12 = x6 * x6;
    assert!(x.pow([0u64]) == F13::one());
    assert!(x.pow([1u64]) == x);
    assert!(x.pow([2u64]) == x2);
    assert!(x.pow([3u64]) == x3);
    assert!(x.pow([6u64]) == x6);
    assert!(x.pow([12u64]) == x12);
    assert!(x.pow([13u64]) == x12 * x);
}

/// bytes -> field, reduced modulo p: all strings of length <= 3, both endiannesses; 8-bit modulus (bit length multiple of 8)
#[kani::proof]
#[kani::unwind(14)]
fn c01_from_bytes_mod_order_f251() {
    let b: [u8; 3] = kani::any();
    let n: usize = kani::any();
    kani::assume(n <= 3);
    let le = F251::from_le_bytes_mod_order(&b[..n]);
    let mut val: u64 = 0;
    let mut i = n;
    while i > 0 { i -= 1; val = (val * 256 + b[i] as u64) % 251; }
    assert!(raw(&le) == val);
    let be = F251::from_be_bytes_mod_order(&b[..n]);
    let mut val: u64 = 0;
    let mut i = 0;
    while i < n { val = (val * 256 + b[i] as u64) % 251; i += 1; }
    assert!(raw(&be) == val);
}
#[kani::proof]
#[kani::unwind(14)]
fn c01_from_bytes_mod_order_f101() {
    let b: [u8; 3] = kani::any();
    let n: usize = kani::any();
    kani::assume(n <= 3);
    let le = F101::from_le_bytes_mod_order(&b[..n]);
    let mut val: u64 = 0;
    let mut i = n;
    while i > 0 { i -= 1; val = (val * 256 + b[i] as u64) % 101; }
    assert!(raw(&le) == val);
}

/// machine integers -> field
#[kani::proof]
#[kani::unwind(4)]
fn c01_from_ints_f101() {
    let a: u64 = kani::any();
    assert!(raw(&F101::from(a)) == a % 101);
    let b: i32 = kani::any();
    let e = (((b as i64) % 101 + 101) % 101) as u64;
    assert!(raw(&F101::from(b)) == e);
    let d: bool = kani::any();
    assert!(raw(&F101::from(d)) == d as u64);
    let f: i8 = kani::any();
    assert!(raw(&F101::from(f)) == (((f as i32) % 101 + 101) % 101) as u64);
}

/// operator layer of the generic Fp: neg/sub/div/double/square/sum/product agree with the integer meaning
#[kani::proof]
#[kani::unwind(16)]
fn c01_operator_layer_f13() {
    let a = any_fp::<P13>();
    let b = any_fp::<P13>();
    assert!(raw(&(-a)) == (13 - raw(&a)) % 13);
    assert!(raw(&(a - b)) == (raw(&a) + 13 - raw(&b)) % 13);
    assert!(raw(&a.double()) == (2 * raw(&a)) % 13);
    assert!(raw(&a.square()) == (raw(&a) * raw(&a)) % 13);
    if !b.is_zero() { assert!((a / b) * b == a); }
    let s: F13 = [a, b, a].iter().sum();
    assert!(raw(&s) == (2 * raw(&a) + raw(&b)) % 13);
    let p: F13 = [a, b].iter().product();
    assert!(raw(&p) == (raw(&a) * raw(&b)) % 13);
    assert!(a.is_zero() == (raw(&a) == 0) && a.is_one() == (raw(&a) == 1));
    assert!((a < b) == (raw(&a) < raw(&b)));
}

// ---- C11: square roots, exhaustive over the elements of toy fields with two-adicity 1, 2, 4 (concrete enumeration:
// CBMC constant-folds each case, which keeps the 64-step exponentiation loops cheap)
macro_rules! sqrt_all {
    ($name:ident, $cfg:ty, $f:ty, $p:expr, $unw:expr) => {
        #[kani::proof]
        #[kani::unwind($unw)]
        fn $name() {
            let mut xv: u64 = 0;
            while xv < $p {
                let x: $f = mk::<$cfg>(xv);
                let mut is_sq = false;
                let mut y: u64 = 0;
                while y < $p { if (y * y) % $p == xv { is_sq = true; } y += 1; }
                match x.sqrt() {
                    Some(r) => assert!(is_sq && r * r == x),
                    None => assert!(!is_sq),
                }
                let l = x.legendre();
                assert!(l.is_zero() == (xv == 0));
                assert!(l.is_qr() == (is_sq && xv != 0));
                xv += 1;
            }
        }
    };
}
sqrt_all!(c11_sqrt_f7, P7, F7, 7u64, 68);
sqrt_all!(c11_sqrt_f13, P13, F13, 13u64, 68);
sqrt_all!(c11_sqrt_f17, P17, F17, 17u64, 68);
