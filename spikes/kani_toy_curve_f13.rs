use ark_ff::fields::{Fp64, MontBackend, MontConfig};
use ark_ec::{short_weierstrass::{SWCurveConfig, Affine, Projective}, CurveConfig};

#[derive(MontConfig)]
#[modulus = "13"]
#[generator = "2"]
pub struct C101;
pub type F101 = Fp64<MontBackend<C101, 1>>;

#[derive(MontConfig)]
#[modulus = "19"]
#[generator = "2"]
pub struct C107;
pub type F107 = Fp64<MontBackend<C107, 1>>;

pub struct Toy;
impl CurveConfig for Toy {
    type BaseField = F101;
    type ScalarField = F107;
    const COFACTOR: &'static [u64] = &[1];
    const COFACTOR_INV: F107 = ark_ff::MontFp!("1");
}
impl SWCurveConfig for Toy {
    const COEFF_A: F101 = ark_ff::MontFp!("0");
    const COEFF_B: F101 = ark_ff::MontFp!("2");
    const GENERATOR: Affine<Self> = Affine::new_unchecked(ark_ff::MontFp!("1"), ark_ff::MontFp!("4"));
}

#[cfg(kani)]
mod proofs {
    use super::*;
    use ark_ff::{BigInt, Fp, PrimeField, Field, AdditiveGroup, Zero};
    use core::marker::PhantomData;

    fn any_f() -> F101 { let a: u64 = kani::any(); kani::assume(a < 13); Fp(BigInt([a]), PhantomData) }
    fn on_curve_jac(x: F101, y: F101, z: F101) -> bool {
        // y^2 = x^3 + a x z^4 + b z^6
        let z2 = z.square(); let z4 = z2.square(); let z6 = z4 * z2;
        y.square() == x.square() * x + Toy::COEFF_A * x * z4 + Toy::COEFF_B * z6
    }

    #[kani::proof]
    fn add_stays_on_curve() {
        let p = Projective::<Toy>::new_unchecked(any_f(), any_f(), any_f());
        let q = Projective::<Toy>::new_unchecked(any_f(), any_f(), any_f());
        kani::assume(on_curve_jac(p.x, p.y, p.z));
        kani::assume(on_curve_jac(q.x, q.y, q.z));
        let r = p + q;
        assert!(on_curve_jac(r.x, r.y, r.z));
    }
}
