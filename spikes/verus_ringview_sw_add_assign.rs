use vstd::prelude::*;
use vstd::std_specs::ops::*;
use vstd::std_specs::cmp::*;
use core::ops::{Add, Sub, Mul, AddAssign, SubAssign, MulAssign, Neg};
verus! {

// ---------------- ring-view stub ----------------
#[derive(Clone, Copy)]
pub struct F { pub g: Ghost<int> }
pub open spec fn mk(x: int) -> F { F { g: Ghost(x) } }
pub uninterp spec fn feq(a: int, b: int) -> bool;
pub uninterp spec fn fzero(a: int) -> bool;

impl F {
    pub open spec fn v(&self) -> int { self.g@ }
    pub fn zero() -> (r: F) ensures r.v() == 0 { F { g: Ghost(0) } }
    pub fn one() -> (r: F) ensures r.v() == 1 { F { g: Ghost(1) } }
    #[verifier::external_body]
    pub fn is_zero(&self) -> (r: bool) ensures r == fzero(self.v()) { unimplemented!() }
    pub fn square(&self) -> (r: F) ensures r.v() == self.v() * self.v() { F { g: Ghost(self.v() * self.v()) } }
    pub fn double(&self) -> (r: F) ensures r.v() == 2 * self.v() { F { g: Ghost(2 * self.v()) } }
    pub fn square_in_place(&mut self) -> (r: &mut Self)
        ensures (*r).v() == old(self).v() * old(self).v(), *final(self) == *final(r) { self.g = Ghost(self.v() * self.v()); self }
    pub fn double_in_place(&mut self) -> (r: &mut Self)
        ensures (*r).v() == 2 * old(self).v(), *final(self) == *final(r) { self.g = Ghost(2 * self.v()); self }
    pub fn neg_in_place(&mut self) -> (r: &mut Self)
        ensures (*r).v() == -old(self).v(), *final(self) == *final(r) { self.g = Ghost(-self.v()); self }
    pub fn sum_of_products(a: &[F; 2], b: &[F; 2]) -> (r: F)
        ensures r.v() == a@[0].v() * b@[0].v() + a@[1].v() * b@[1].v() { F { g: Ghost(a@[0].v() * b@[0].v() + a@[1].v() * b@[1].v()) } }
}
impl PartialEqSpecImpl for F {
    open spec fn obeys_eq_spec() -> bool { true }
    open spec fn eq_spec(&self, other: &Self) -> bool { feq(self.v(), other.v()) }
}
impl PartialEq for F { #[verifier::external_body] fn eq(&self, other: &Self) -> (r: bool) { unimplemented!() } }

macro_rules! assign_op { ($tr:ident, $sp:ident, $m:ident, $ob:ident, $req:ident, $spec:ident, $rhs:ty, $e:expr) => {
    verus! {
    impl<'a> $sp<$rhs> for F {
        open spec fn $ob() -> bool { true }
        open spec fn $req(&self, rhs: $rhs) -> bool { true }
        open spec fn $spec(&self, rhs: $rhs) -> &F { let f: spec_fn(int, int) -> int = $e; &mk(f(self.v(), rhs.v())) }
    }
    impl<'a> $tr<$rhs> for F { fn $m(&mut self, o: $rhs) { let ghost f: spec_fn(int, int) -> int = $e; self.g = Ghost(f(self.v(), o.v())); } }
    }
} }
assign_op!(MulAssign, MulAssignSpecImpl, mul_assign, obeys_mul_assign_spec, mul_assign_req, mul_assign_spec, &'a F, |a: int, b: int| a * b);
assign_op!(AddAssign, AddAssignSpecImpl, add_assign, obeys_add_assign_spec, add_assign_req, add_assign_spec, &'a F, |a: int, b: int| a + b);
assign_op!(SubAssign, SubAssignSpecImpl, sub_assign, obeys_sub_assign_spec, sub_assign_req, sub_assign_spec, &'a F, |a: int, b: int| a - b);

} // verus!
assign_op!(MulAssign, MulAssignSpecImpl, mul_assign, obeys_mul_assign_spec, mul_assign_req, mul_assign_spec, F, |a: int, b: int| a * b);

verus! {

#[derive(Clone, Copy)]
pub struct Projective { pub x: F, pub y: F, pub z: F }

pub open spec fn u1(p: Projective, q: Projective) -> int { p.x.v() * (q.z.v() * q.z.v()) }
pub open spec fn u2(p: Projective, q: Projective) -> int { q.x.v() * (p.z.v() * p.z.v()) }
pub open spec fn s1(p: Projective, q: Projective) -> int { p.y.v() * q.z.v() * (q.z.v() * q.z.v()) }
pub open spec fn s2(p: Projective, q: Projective) -> int { q.y.v() * p.z.v() * (p.z.v() * p.z.v()) }

/// textbook chord law in cross-multiplied form: the result (X3,Y3,Z3) represents lambda = R/Z3,
/// x3 = lambda^2 - x1 - x2, y3 = lambda (x1 - x3) - y1   with  x1 Z3^2 = 4 H^2 U1 etc.
pub open spec fn chord(p: Projective, q: Projective, r: Projective) -> bool {
    let h = u2(p,q) - u1(p,q); let rr = 2 * (s2(p,q) - s1(p,q));
    &&& r.z.v() == 2 * (p.z.v() * q.z.v()) * h
    &&& r.x.v() == rr * rr - 4 * (h * h) * (u1(p,q) + u2(p,q))
    &&& r.y.v() == rr * (4 * (h * h) * u1(p,q) - r.x.v()) - 8 * (h * h * h) * s1(p,q)
}

pub uninterp spec fn dbl_spec(p: Projective) -> Projective;

impl Projective {
    pub fn zero() -> (r: Self) ensures r.x.v() == 1, r.y.v() == 1, r.z.v() == 0 { Projective { x: F::one(), y: F::one(), z: F::zero() } }
    #[verifier::external_body]
    pub fn is_zero(&self) -> (r: bool) ensures r == fzero(self.z.v()) { unimplemented!() }
    #[verifier::external_body]
    pub fn double_in_place(&mut self) -> (r: &mut Self) ensures *r == dbl_spec(*old(self)), *final(self) == *final(r) { unimplemented!() }

    // real body of `impl AddAssign<&Self> for Projective<P>` (ec/src/models/short_weierstrass/group.rs), R4/R6 applied
    fn add_assign(&mut self, other: &Self)
        ensures
            fzero(old(self).z.v()) ==> *final(self) == *other,
            !fzero(old(self).z.v()) && fzero(other.z.v()) ==> *final(self) == *old(self),
            !fzero(old(self).z.v()) && !fzero(other.z.v()) ==> (
                if feq(u1(*old(self), *other), u2(*old(self), *other)) {
                    if feq(s1(*old(self), *other), s2(*old(self), *other)) { *final(self) == dbl_spec(*old(self)) }
                    else { final(self).z.v() == 0 }
                } else { chord(*old(self), *other, *final(self)) }),
    {
        if self.is_zero() {
            *self = *other;
            return;
        }

        if other.is_zero() {
            return;
        }

        // Z1Z1 = Z1^2
        let z1z1 = self.z.square();

        // Z2Z2 = Z2^2
        let z2z2 = other.z.square();

        // U1 = X1*Z2Z2
        let mut u1 = self.x;
        u1 *= &z2z2;

        // U2 = X2*Z1Z1
        let mut u2 = other.x;
        u2 *= &z1z1;

        // S1 = Y1*Z2*Z2Z2
        let mut s1 = self.y;
        s1 *= &other.z;
        s1 *= &z2z2;

        // S2 = Y2*Z1*Z1Z1
        let mut s2 = other.y;
        s2 *= &self.z;
        s2 *= &z1z1;

        if u1 == u2 {
            if s1 == s2 {
                // The two points are equal, so we double.
                self.double_in_place();
            } else {
                // a + (-a) = 0
                *self = Self::zero();
            }
        } else {
            // H = U2-U1
            let mut h = u2;
            h -= &u1;

            // I = (2*H)^2
            let mut i = h;
            i.double_in_place().square_in_place();

            // J = -H*I
            let mut j = h;
            j.neg_in_place();
            j *= &i;

            // r = 2*(S2-S1)
            let mut r = s2;
            r -= &s1;
            r.double_in_place();

            // V = U1*I
            let mut v = u1;
            v *= &i;

            // X3 = r^2 + J - 2*V
            self.x = r;
            self.x.square_in_place();
            self.x += &j;
            self.x -= &(v.double());

            // Y3 = r*(V - X3) + 2*S1*J
            v -= &self.x;
            self.y = s1;
            self.y.double_in_place();
            self.y = F::sum_of_products(&[r, self.y], &[v, j]);

            // Z3 = ((Z1+Z2)^2 - Z1Z1 - Z2Z2)*H
            // This is equal to Z3 = 2 * Z1 * Z2 * H, and computing it this way is faster.
            self.z *= other.z;
            self.z.double_in_place();
            self.z *= &h;
        }
        proof {
            lemma_add(old(self).x.v(), old(self).y.v(), old(self).z.v(), other.x.v(), other.y.v(), other.z.v());
        }
    }
}

pub proof fn lemma_add(x1:int,y1:int,z1:int,x2:int,y2:int,z2:int)
  by(nonlinear_arith)
  ensures ({
    let u1 = x1*(z2*z2); let u2 = x2*(z1*z1); let s1 = y1*z2*(z2*z2); let s2 = y2*z1*(z1*z1);
    let h = u2-u1; let i = (2*h)*(2*h); let j = (-h)*i; let r = 2*(s2-s1); let v = u1*i;
    let x3 = r*r + j - 2*v;
    let y3 = r*(v - x3) + (2*s1)*j;
    &&& x3 == r*r - 4*(h*h)*(u1+u2)
    &&& y3 == r*(4*(h*h)*u1 - x3) - 8*(h*h*h)*s1
    &&& (2*(z1*z2))*h == 2*(z1*z2)*h
  })
{}

} // verus!
fn main() {}
