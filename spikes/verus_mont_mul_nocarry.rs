use vstd::prelude::*;
verus! {

pub struct BigInt<const N: usize>(pub [u64; N]);
pub struct Fp<P, const N: usize>(pub BigInt<N>, pub core::marker::PhantomData<P>);

pub open spec fn B() -> nat { 0x1_0000_0000_0000_0000 }
pub open spec fn bpow(i: nat) -> nat decreases i { if i == 0 { 1 } else { B() * bpow((i - 1) as nat) } }
pub open spec fn val(s: Seq<u64>, i: nat) -> nat decreases i
{ if i == 0 { 0 } else { val(s, (i - 1) as nat) + (s[i - 1] as nat) * bpow((i - 1) as nat) } }

pub proof fn val_frame(s: Seq<u64>, t: Seq<u64>, i: nat)
    requires forall|j: int| 0 <= j < i ==> s[j] == t[j]
    ensures val(s, i) == val(t, i)
    decreases i
{ if i > 0 { val_frame(s, t, (i - 1) as nat); } }

pub proof fn bpow_pos(i: nat) ensures bpow(i) > 0 decreases i
{ if i > 0 { bpow_pos((i-1) as nat); assert(B() * bpow((i-1) as nat) > 0) by(nonlinear_arith) requires bpow((i-1) as nat) > 0; } }

pub proof fn val_bound(s: Seq<u64>, i: nat) ensures val(s, i) < bpow(i) decreases i
{
    if i > 0 {
        val_bound(s, (i-1) as nat);
        let x = s[i-1] as nat; let p = bpow((i-1) as nat); let v = val(s, (i-1) as nat);
        assert(v + x * p < B() * p) by(nonlinear_arith) requires v < p, x < B();
    }
}

pub proof fn val_zero(s: Seq<u64>, i: nat)
    requires forall|j: int| 0 <= j < i ==> s[j] == 0
    ensures val(s, i) == 0
    decreases i
{ if i > 0 { val_zero(s, (i-1) as nat); assert(0 * bpow((i-1) as nat) == 0) by(nonlinear_arith); } }

pub mod fa {
    use super::*;
    #[verifier::external_body]
    pub fn mac(a: u64, b: u64, c: u64, carry: &mut u64) -> (r: u64)
        ensures r as nat + (*final(carry)) as nat * B() == a as nat + b as nat * c as nat
    { unimplemented!() }
    #[verifier::external_body]
    pub fn mac_discard(a: u64, b: u64, c: u64, carry: &mut u64)
        ensures (*final(carry)) as nat == (a as nat + b as nat * c as nat) / B()
    { unimplemented!() }
    #[verifier::external_body]
    pub fn mac_with_carry(a: u64, b: u64, c: u64, carry: &mut u64) -> (r: u64)
        ensures r as nat + (*final(carry)) as nat * B() == a as nat + b as nat * c as nat + (*old(carry)) as nat
    { unimplemented!() }
}

pub proof fn lemma_k(t0: nat, inv: nat, p0: nat, k: nat)
    requires (p0 * inv + 1) % B() == 0, k == (t0 * inv) % B()
    ensures (t0 + k * p0) % B() == 0
{
    let c = (p0 * inv + 1) / B();
    let q = (t0 * inv) / B();
    assert(p0 * inv + 1 == c * B()) by(nonlinear_arith) requires (p0 * inv + 1) % B() == 0, c == (p0 * inv + 1) / B(), B() > 0;
    assert(t0 * inv == q * B() + k) by(nonlinear_arith) requires k == (t0 * inv) % B(), q == (t0*inv)/B(), B() > 0;
    assert(t0 + k * p0 == B() * (t0 * c - q * p0)) by(nonlinear_arith)
        requires p0 * inv + 1 == c * B(), t0 * inv == q * B() + k;
    assert((B() * (t0 * c - q * p0)) % (B() as int) == 0) by(nonlinear_arith) requires B() > 0;
}

pub proof fn lemma_div_exact(x: nat, c: nat)
    requires x % B() == 0, c == x / B()
    ensures x == c * B()
{
    assert(x == c * B()) by(nonlinear_arith) requires x % B() == 0, c == x / B(), B() > 0;
}

pub proof fn lemma_lt(v: nat, a: nat, p: nat, vb: nat, m: nat, bb: nat)
    requires v * bb == a * vb + m * p, vb < bb, m < bb, bb > 0, a < p
    ensures v < a + p
{
    assert(a * vb <= a * bb) by(nonlinear_arith) requires vb < bb;
    assert((m + 1) * p <= bb * p) by(nonlinear_arith) requires m < bb;
    assert(v * bb < (a + p) * bb) by(nonlinear_arith) requires v * bb == a * vb + m * p, a * vb <= a * bb, (m + 1) * p <= bb * p, p > 0;
    assert(v < a + p) by(nonlinear_arith) requires v * bb < (a + p) * bb, bb > 0;
}

pub proof fn lemma_i2(tv: nat, tj: nat, bj: nat, k: nat, vp: nat, pj: nat, vr: nat, nw: nat, bjm1: nat, c2: nat, c2n: nat)
    requires tv + k * vp == B() * vr + c2 * bj, nw + c2n * B() == tj + k * pj + c2, bj == B() * bjm1
    ensures tv + tj * bj + k * (vp + pj * bj) == B() * (vr + nw * bjm1) + c2n * (B() * bj)
{
    assert((nw + c2n * B()) * bj == (tj + k * pj + c2) * bj);
    assert(nw * bj + c2n * (B() * bj) == tj * bj + k * (pj * bj) + c2 * bj) by(nonlinear_arith)
        requires (nw + c2n * B()) * bj == (tj + k * pj + c2) * bj;
    assert(nw * bj == B() * (nw * bjm1)) by(nonlinear_arith) requires bj == B() * bjm1;
    assert(k * (vp + pj * bj) == k * vp + k * (pj * bj)) by(nonlinear_arith);
    assert(B() * (vr + nw * bjm1) == B() * vr + B() * (nw * bjm1)) by(nonlinear_arith);
}

pub open spec fn mulp(m: nat, p: nat) -> nat { m * p }

pub trait MontConfig<const N: usize>: Sized {
    const MODULUS: BigInt<N>;
    const INV: u64;

    open spec fn pval() -> nat { val(Self::MODULUS.0@, N as nat) }

    fn mul_nocarry(a: &mut Fp<Self, N>, b: &Fp<Self, N>)
        requires N >= 1,
            (Self::MODULUS.0@[0] as nat * Self::INV as nat + 1) % B() == 0,
            2 * val(Self::MODULUS.0@, N as nat) <= bpow(N as nat),
            val(old(a).0.0@, N as nat) < val(Self::MODULUS.0@, N as nat),
        ensures
            exists|m: nat| val(final(a).0.0@, N as nat) * bpow(N as nat) == val(old(a).0.0@, N as nat) * val(b.0.0@, N as nat) + #[trigger] mulp(m, val(Self::MODULUS.0@, N as nat)),
            val(final(a).0.0@, N as nat) < val(old(a).0.0@, N as nat) + val(Self::MODULUS.0@, N as nat),
    {
                let ghost av = a.0.0@; let ghost bv = b.0.0@; let ghost pv = Self::MODULUS.0@;
                let ghost A = val(av, N as nat); let ghost P = val(pv, N as nat);
                let ghost mut m: nat = 0;
                let mut r = [0u64; N];
                proof { val_zero(r@, N as nat); assert(A * val(bv, 0) == 0) by(nonlinear_arith) requires val(bv, 0) == 0; assert(0 * P == 0) by(nonlinear_arith); }

                for i in 0..N
                    invariant N >= 1, av == a.0.0@, bv == b.0.0@, pv == Self::MODULUS.0@, A == val(av, N as nat), P == val(pv, N as nat),
                        (pv[0] as nat * Self::INV as nat + 1) % B() == 0, 2 * P <= bpow(N as nat), A < P,
                        val(r@, N as nat) * bpow(i as nat) == A * val(bv, i as nat) + m * P,
                        m < bpow(i as nat),
                {
                    let ghost r0 = r@;
                    let ghost bi = bv[i as int] as nat;
                    let mut carry1 = 0u64;
                    r[0] = fa::mac(r[0], (a.0).0[0], (b.0).0[i], &mut carry1);

                    let k = r[0].wrapping_mul(Self::INV);

                    let mut carry2 = 0u64;
                    fa::mac_discard(r[0], k, Self::MODULUS.0[0], &mut carry2);
                    let ghost mut tv: nat = r[0] as nat;
                    proof {
                        lemma_k(r[0] as nat, Self::INV as nat, pv[0] as nat, k as nat);
                        lemma_div_exact(r[0] as nat + k as nat * pv[0] as nat, carry2 as nat);
                        reveal_with_fuel(val, 2); reveal_with_fuel(bpow, 2);
                        assert(bpow(1) == B() * bpow(0));
                        assert(val(r0, 1) == r0[0] as nat * bpow(0));
                        assert(val(av, 1) == av[0] as nat * bpow(0));
                        assert(val(pv, 1) == pv[0] as nat * bpow(0));
                        assert(tv + carry1 as nat * bpow(1) == val(r0, 1) + val(av, 1) * bi) by(nonlinear_arith)
                            requires tv + carry1 as nat * B() == r0[0] as nat + av[0] as nat * bi, bpow(1) == B(), val(r0,1) == r0[0] as nat * 1, val(av,1) == av[0] as nat * 1;
                        assert(tv + k as nat * val(pv, 1) == B() * val(r@, 0) + carry2 as nat * bpow(1)) by(nonlinear_arith)
                            requires tv + k as nat * pv[0] as nat == carry2 as nat * B(), bpow(1) == B(), val(pv,1) == pv[0] as nat * 1, val(r@, 0) == 0;
                    }

                    for j in 1..N
                        invariant N >= 1, i < N, av == a.0.0@, bv == b.0.0@, pv == Self::MODULUS.0@, bi == bv[i as int] as nat,
                            tv + carry1 as nat * bpow(j as nat) == val(r0, j as nat) + val(av, j as nat) * bi,
                            tv + k as nat * val(pv, j as nat) == B() * val(r@, (j - 1) as nat) + carry2 as nat * bpow(j as nat),
                            forall|l: int| j <= l < N ==> r@[l] == r0[l],
                    {
                        let ghost rprev = r@;
                        let ghost c1 = carry1 as nat; let ghost c2 = carry2 as nat;
                        r[j] = fa::mac_with_carry(r[j], (a.0).0[j], (b.0).0[i], &mut carry1);
                        let ghost tj = r[j as int] as nat;
                        r[j - 1] = fa::mac_with_carry(r[j], k, Self::MODULUS.0[j], &mut carry2);
                        proof {
                            let bj = bpow(j as nat);
                            assert(bpow((j + 1) as nat) == B() * bj);
                            assert(bj == B() * bpow((j - 1) as nat));
                            val_frame(rprev, r@, (j - 1) as nat);
                            let nw = r@[j - 1] as nat;
                            // I1'
                            assert(tv + tj * bj + carry1 as nat * (B() * bj) == val(r0, j as nat) + r0[j as int] as nat * bj + (val(av, j as nat) + av[j as int] as nat * bj) * bi) by(nonlinear_arith)
                                requires tv + c1 * bj == val(r0, j as nat) + val(av, j as nat) * bi,
                                    tj + carry1 as nat * B() == r0[j as int] as nat + av[j as int] as nat * bi + c1;
                            // I2'
                            lemma_i2(tv, tj, bj, k as nat, val(pv, j as nat), pv[j as int] as nat, val(rprev, (j-1) as nat), nw, bpow((j-1) as nat), c2, carry2 as nat);
                            tv = tv + tj * bj;
                        }
                    }
                    proof {
                        // overflow freedom of carry1 + carry2
                        let bn = bpow(N as nat); let bn1 = bpow((N - 1) as nat);
                        assert(bn == B() * bn1);
                        let vlow = val(r@, (N - 1) as nat);
                        let cs = carry1 as nat + carry2 as nat;
                        let vnew = vlow + cs * bn1;
                        // B * vnew == val(r0,N) + A*bi + k*P
                        assert(tv + carry1 as nat * bn == val(r0, N as nat) + A * bi);
                        assert(tv + k as nat * P == B() * vlow + carry2 as nat * bn);
                        assert(B() * vnew == val(r0, N as nat) + A * bi + k as nat * P) by(nonlinear_arith)
                            requires tv + carry1 as nat * bn == val(r0, N as nat) + A * bi,
                                tv + k as nat * P == B() * vlow + carry2 as nat * bn, bn == B() * bn1, vnew == vlow + cs * bn1, cs == carry1 as nat + carry2 as nat;
                        let bi_pow = bpow(i as nat);
                        assert(bpow((i + 1) as nat) == B() * bi_pow);
                        let m2 = m + k as nat * bi_pow;
                        assert(vnew * (B() * bi_pow) == A * (val(bv, i as nat) + bi * bi_pow) + m2 * P) by(nonlinear_arith)
                            requires B() * vnew == val(r0, N as nat) + A * bi + k as nat * P,
                                val(r0, N as nat) * bi_pow == A * val(bv, i as nat) + m * P, m2 == m + k as nat * bi_pow;
                        assert(m2 < B() * bi_pow) by(nonlinear_arith) requires m < bi_pow, (k as nat) < B(), m2 == m + k as nat * bi_pow;
                        val_bound(bv, (i + 1) as nat);
                        bpow_pos((i + 1) as nat);
                        let bb = bpow((i + 1) as nat); let vb = val(bv, (i + 1) as nat);
                        lemma_lt(vnew, A, P, vb, m2, bb);
                        assert(cs < B()) by(nonlinear_arith)
                            requires vnew == vlow + cs * bn1, vnew < A + P, A < P, 2 * P <= bn, bn == B() * bn1;
                        m = m2;
                    }
                    let ghost rlast = r@;
                    r[N - 1] = carry1 + carry2;
                    proof { val_frame(rlast, r@, (N - 1) as nat); }
                }
                (a.0).0.copy_from_slice(&r);
                proof {
                    assert(a.0.0@ == r@);
                    val_bound(bv, N as nat); bpow_pos(N as nat);
                    let bb = bpow(N as nat); let vb = val(bv, N as nat); let vr = val(r@, N as nat);
                    lemma_lt(vr, A, P, vb, m, bb);
                    assert(vr * bb == A * vb + mulp(m, P));
                }
    }
}

} // verus!
fn main() {}
