use vstd::prelude::*;
verus! {

#[derive(Clone, Copy)]
pub struct F { pub g: Ghost<int> }

impl F {
    pub open spec fn v(&self) -> int { self.g@ }

    fn double_in_place(&mut self) -> (r: &mut Self)
        ensures (*r).v() == 2 * old(self).v(), *final(self) == *final(r),
    {
        self.g = Ghost(2 * self.v());
        self
    }
}

fn test(a: F) -> (r: F)
  ensures r.v() == 4 * a.v()
{
    let mut x = a;
    x.double_in_place().double_in_place();
    x
}

} // verus!
fn main() {}
