use vstd::prelude::*;
use vstd::std_specs::ops::*;
use core::ops::{Add, Sub, Mul, AddAssign, SubAssign, MulAssign, Neg};
verus! {

#[derive(Clone, Copy)]
pub struct F { pub g: Ghost<int> }

impl F {
    pub open spec fn v(&self) -> int { self.g@ }
}
pub open spec fn mk(x: int) -> F { F { g: Ghost(x) } }

impl<'a> MulSpecImpl<&'a F> for F {
    open spec fn obeys_mul_spec() -> bool { true }
    open spec fn mul_req(self, rhs: &'a F) -> bool { true }
    open spec fn mul_spec(self, rhs: &'a F) -> F { mk(self.v() * rhs.v()) }
}
impl<'a> Mul<&'a F> for F { type Output = F;
    fn mul(self, o: &'a F) -> (r: F) { F { g: Ghost(self.v() * o.v()) } } }
impl<'a> AddSpecImpl<&'a F> for F {
    open spec fn obeys_add_spec() -> bool { true }
    open spec fn add_req(self, rhs: &'a F) -> bool { true }
    open spec fn add_spec(self, rhs: &'a F) -> F { mk(self.v() + rhs.v()) }
}
impl<'a> Add<&'a F> for F { type Output = F;
    fn add(self, o: &'a F) -> (r: F) { F { g: Ghost(self.v() + o.v()) } } }
impl<'a> SubSpecImpl<&'a F> for F {
    open spec fn obeys_sub_spec() -> bool { true }
    open spec fn sub_req(self, rhs: &'a F) -> bool { true }
    open spec fn sub_spec(self, rhs: &'a F) -> F { mk(self.v() - rhs.v()) }
}
impl<'a> Sub<&'a F> for F { type Output = F;
    fn sub(self, o: &'a F) -> (r: F) { F { g: Ghost(self.v() - o.v()) } } }

pub uninterp spec fn beta() -> int;

fn mul_base_field_by_nonresidue(fe: F) -> (r: F) ensures r.v() == beta() * fe.v() { F { g: Ghost(beta() * fe.v()) } }

pub struct CubicExtField { pub c0: F, pub c1: F, pub c2: F }

impl CubicExtField {
    fn mul_assign(&mut self, other: &Self)
      ensures final(self).c0.v() == old(self).c0.v()*other.c0.v() + beta()*(old(self).c1.v()*other.c2.v() + old(self).c2.v()*other.c1.v()),
              final(self).c1.v() == old(self).c0.v()*other.c1.v() + old(self).c1.v()*other.c0.v() + beta()*(old(self).c2.v()*other.c2.v()),
              final(self).c2.v() == old(self).c0.v()*other.c2.v() + old(self).c1.v()*other.c1.v() + old(self).c2.v()*other.c0.v(),
    {
        let a = other.c0;
        let b = other.c1;
        let c = other.c2;

        let d = self.c0;
        let e = self.c1;
        let f = self.c2;

        let ad = Mul::mul(d, &a);
        let be = Mul::mul(e, &b);
        let cf = Mul::mul(f, &c);

        let x = Sub::sub(Sub::sub(Mul::mul(Add::add(e, &f), &Add::add(b, &c)), &be), &cf);
        let y = Sub::sub(Sub::sub(Mul::mul(Add::add(d, &e), &Add::add(a, &b)), &ad), &be);
        let z = Sub::sub(Add::add(Sub::sub(Mul::mul(Add::add(d, &f), &Add::add(a, &c)), &ad), &be), &cf);

        self.c0 = Add::add(ad, &mul_base_field_by_nonresidue(x));
        self.c1 = Add::add(y, &mul_base_field_by_nonresidue(cf));
        self.c2 = z;
        proof {
            assert(x.v() == e.v()*c.v() + f.v()*b.v()) by(nonlinear_arith)
              requires x.v() == (e.v() + f.v()) * (b.v() + c.v()) - e.v()*b.v() - f.v()*c.v();
            assert(y.v() == d.v()*b.v() + e.v()*a.v()) by(nonlinear_arith)
              requires y.v() == (d.v() + e.v()) * (a.v() + b.v()) - d.v()*a.v() - e.v()*b.v();
            assert(z.v() == d.v()*c.v() + f.v()*a.v() + e.v()*b.v()) by(nonlinear_arith)
              requires z.v() == (d.v() + f.v()) * (a.v() + c.v()) - d.v()*a.v() + e.v()*b.v() - f.v()*c.v();
        }
    }
}

} // verus!
fn main() {}
