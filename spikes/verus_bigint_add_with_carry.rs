use vstd::prelude::*;
verus! {

pub struct BigInt<const N: usize>(pub [u64; N]);

pub open spec fn B() -> nat { 0x1_0000_0000_0000_0000 }

pub open spec fn bpow(i: nat) -> nat decreases i { if i == 0 { 1 } else { B() * bpow((i - 1) as nat) } }

/// value of the low i limbs
pub open spec fn val(s: Seq<u64>, i: nat) -> nat
    decreases i
{
    if i == 0 { 0 } else { val(s, (i - 1) as nat) + (s[i - 1] as nat) * bpow((i - 1) as nat) }
}

pub proof fn val_frame(s: Seq<u64>, t: Seq<u64>, i: nat)
    requires forall|j: int| 0 <= j < i ==> s[j] == t[j]
    ensures val(s, i) == val(t, i)
    decreases i
{
    if i > 0 { val_frame(s, t, (i - 1) as nat); }
}

pub fn adc_for_add_with_carry(a: &mut u64, b: u64, carry: u8) -> (r: u8)
    requires carry <= 1
    ensures r <= 1,
        (*final(a)) as nat + (r as nat) * B() == (*old(a)) as nat + b as nat + carry as nat,
{
    let tmp = *a as u128 + b as u128 + carry as u128;
    *a = tmp as u64;
    proof {
        assert((tmp as u64) as nat + ((tmp >> 64) as u8) as nat * 0x1_0000_0000_0000_0000 == tmp as nat && ((tmp >> 64) as u8) <= 1) by(bit_vector)
            requires tmp <= 0x1_ffff_ffff_ffff_ffff_u128;
    }
    (tmp >> 64) as u8
}

impl<const N: usize> BigInt<N> {
    fn add_with_carry(&mut self, other: &Self) -> (r: bool)
        ensures val(final(self).0@, N as nat) + (if r { bpow(N as nat) } else { 0 }) == val(old(self).0@, N as nat) + val(other.0@, N as nat)
    {
        let mut carry = 0;

        for i in 0..N
            invariant carry <= 1,
              val(self.0@, i as nat) + carry as nat * bpow(i as nat) == val(old(self).0@, i as nat) + val(other.0@, i as nat),
              forall|j: int| i <= j < N ==> self.0@[j] == old(self).0@[j],
        {
            let ghost prev = self.0@;
            let ghost c0 = carry;
            carry = adc_for_add_with_carry(&mut self.0[i], other.0[i], carry);
            proof {
                val_frame(prev, self.0@, i as nat);
                let bi = bpow(i as nat);
                assert(bpow((i + 1) as nat) == B() * bi);
                let x = self.0@[i as int] as nat; let c = carry as nat; let p = prev[i as int] as nat; let o = other.0@[i as int] as nat; let cc = c0 as nat;
                assert(x * bi + c * (B() * bi) == p * bi + o * bi + cc * bi) by(nonlinear_arith)
                    requires x + c * B() == p + o + cc;
            }
        }

        carry != 0
    }
}

} // verus!
fn main() {}
