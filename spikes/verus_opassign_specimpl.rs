use vstd::prelude::*;
use vstd::std_specs::ops::*;
use core::ops::{Add, Sub, Mul, AddAssign, SubAssign, MulAssign, Neg};
verus! {

#[derive(Clone, Copy)]
pub struct F { pub g: Ghost<int> }

impl F {
    pub open spec fn v(&self) -> int { self.g@ }
}
pub open spec fn mk(x: int) -> F { F { g: Ghost(x) } }

impl<'a> MulAssignSpecImpl<&'a F> for F {
    open spec fn obeys_mul_assign_spec() -> bool { true }
    open spec fn mul_assign_req(&self, rhs: &'a F) -> bool { true }
    open spec fn mul_assign_spec(&self, rhs: &'a F) -> &F { &mk(self.v() * rhs.v()) }
}
impl<'a> MulAssign<&'a F> for F {
    fn mul_assign(&mut self, o: &'a F)  { self.g = Ghost(self.v() * o.v()); } }

impl MulAssignSpecImpl<F> for F {
    open spec fn obeys_mul_assign_spec() -> bool { true }
    open spec fn mul_assign_req(&self, rhs: F) -> bool { true }
    open spec fn mul_assign_spec(&self, rhs: F) -> &F { &mk(self.v() * rhs.v()) }
}
impl MulAssign<F> for F {
    fn mul_assign(&mut self, o: F)  { self.g = Ghost(self.v() * o.v()); } }

fn test(a: F, b: F) -> (r: F)
  ensures r.v() == a.v() * b.v()
{
    let mut x = a;
    x *= b;
    x
}
fn test2(a: F, b: F) -> (r: F)
  ensures r.v() == a.v() * b.v()
{
    let mut x = a;
    x *= &b;
    x
}

} // verus!
fn main() {}
