extern crate proc_macro;
#[allow(dead_code)]
#[path = "/repo/ff-macros/src/utils.rs"]
mod utils;
#[allow(dead_code)]
#[path = "/repo/ff-macros/src/montgomery/mod.rs"]
mod montgomery;

use std::str::FromStr;
fn main() {
    let m = num_bigint::BigUint::from_str(&std::env::args().nth(1).unwrap()).unwrap();
    let g = num_bigint::BigUint::from_str(&std::env::args().nth(2).unwrap()).unwrap();
    let ts = montgomery::mont_config_helper(m, g, None, None, proc_macro2::Ident::new("Cfg", proc_macro2::Span::call_site()));
    let f: syn::File = syn::parse2(ts).unwrap();
    println!("items: {}", f.items.len());
    println!("{}", quote::quote!(#f).to_string().len());
    let s = quote::quote!(#f).to_string();
    let i = s.find("fn mul_assign").unwrap();
    println!("{}", &s[i..i+900]);
}
