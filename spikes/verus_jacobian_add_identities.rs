use vstd::prelude::*;
verus! {

// pure polynomial identities for add-2007-bl vs textbook chord law (cross-multiplied)
// inputs: Jacobian (X1,Y1,Z1), (X2,Y2,Z2). u1=X1*Z2^2, u2=X2*Z1^2, s1=Y1*Z2^3, s2=Y2*Z1^3
// code: h=u2-u1, i=(2h)^2, j=-h*i, r=2(s2-s1), v=u1*i, X3=r^2+j-2v, Y3=r*(v-X3)+2*s1*j, Z3=2*Z1*Z2*h
// textbook: lambda = (y2-y1)/(x2-x1), x3 = lambda^2 - x1 - x2, y3 = lambda (x1 - x3) - y1, xi = Xi/Zi^2, yi = Yi/Zi^3
// cross-multiplied claims:  X3 * Z1^2 Z2^2 == ... we use: with D = Z1*Z2 : lambda = (s2 - s1)/(D*h') where h' = h  (since x2-x1 = h/(Z1^2 Z2^2), y2-y1 = (s2-s1)/(Z1^3 Z2^3))
// Z3 = 2*D*h ; lambda = r / Z3 ;  x3*Z3^2 = r^2 - (x1+x2) Z3^2 = r^2 - 4 h^2 (u1 + u2) ; 
proof fn add_x(x1:int,y1:int,z1:int,x2:int,y2:int,z2:int)
  by(nonlinear_arith)
  ensures ({
    let u1 = x1*(z2*z2); let u2 = x2*(z1*z1); let s1 = y1*z2*(z2*z2); let s2 = y2*z1*(z1*z1);
    let h = u2-u1; let i = (2*h)*(2*h); let j = (-h)*i; let r = 2*(s2-s1); let v = u1*i;
    let x3 = r*r + j - 2*v;
    x3 == r*r - 4*(h*h)*(u1+u2)
  })
{}

// y3: textbook y3 = lambda (x1 - x3) - y1 ; times Z3^3:  Y3 = r (x1 Z3^2 - X3) - y1 Z3^3 ; x1 Z3^2 = 4 h^2 u1 ; y1 Z3^3 = 8 h^3 s1
proof fn add_y(x1:int,y1:int,z1:int,x2:int,y2:int,z2:int)
  by(nonlinear_arith)
  ensures ({
    let u1 = x1*(z2*z2); let u2 = x2*(z1*z1); let s1 = y1*z2*(z2*z2); let s2 = y2*z1*(z1*z1);
    let h = u2-u1; let i = (2*h)*(2*h); let j = (-h)*i; let r = 2*(s2-s1); let v = u1*i;
    let x3 = r*r + j - 2*v;
    let y3 = r*(v - x3) + (2*s1)*j;
    y3 == r*(4*(h*h)*u1 - x3) - 8*(h*h*h)*s1
  })
{}

// and the representation facts: x1*Z3^2 == 4 h^2 u1 * (1/(Z1^2)) ... i.e. X1 * Z3^2 == 4 h^2 u1 * Z1^2
proof fn add_rep(x1:int,y1:int,z1:int,x2:int,y2:int,z2:int)
  by(nonlinear_arith)
  ensures ({
    let u1 = x1*(z2*z2); let u2 = x2*(z1*z1); let s1 = y1*z2*(z2*z2);
    let h = u2-u1; let z3 = 2*(z1*z2)*h;
    x1*(z3*z3) == 4*(h*h)*u1*(z1*z1) && y1*(z3*z3*z3) == 8*(h*h*h)*s1*(z1*z1*z1)
    && x2*(z3*z3) == 4*(h*h)*u2*(z2*z2)
  })
{}

} // verus!
fn main() {}
