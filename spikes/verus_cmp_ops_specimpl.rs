use vstd::prelude::*;
use vstd::std_specs::cmp::*;
use core::cmp::Ordering;
verus! {

#[derive(Copy, Clone)]
pub struct BigInt<const N: usize>(pub [u64; N]);

pub open spec fn B() -> nat { 0x1_0000_0000_0000_0000 }
pub open spec fn bpow(i: nat) -> nat decreases i { if i == 0 { 1 } else { B() * bpow((i - 1) as nat) } }
pub open spec fn val(s: Seq<u64>, i: nat) -> nat decreases i
{ if i == 0 { 0 } else { val(s, (i - 1) as nat) + (s[i - 1] as nat) * bpow((i - 1) as nat) } }

impl<const N: usize> PartialEqSpecImpl for BigInt<N> {
    open spec fn obeys_eq_spec() -> bool { true }
    open spec fn eq_spec(&self, other: &Self) -> bool { self.0@ == other.0@ }
}
impl<const N: usize> PartialEq for BigInt<N> {
    fn eq(&self, other: &Self) -> (r: bool) 
    {
        let mut i = 0;
        let mut ok = true;
        while i < N invariant i <= N, ok == (forall|j: int| 0 <= j < i ==> self.0@[j] == other.0@[j]) decreases N - i {
            if self.0[i] != other.0[i] { ok = false; }
            i += 1;
        }
        proof { if ok { assert(self.0@ =~= other.0@); } }
        ok
    }
}
impl<const N: usize> Eq for BigInt<N> {}

impl<const N: usize> PartialOrdSpecImpl for BigInt<N> {
    open spec fn obeys_partial_cmp_spec() -> bool { true }
    open spec fn partial_cmp_spec(&self, other: &Self) -> Option<Ordering> {
        Some(if val(self.0@, N as nat) < val(other.0@, N as nat) { Ordering::Less } else if val(self.0@, N as nat) > val(other.0@, N as nat) { Ordering::Greater } else { Ordering::Equal })
    }
}
impl<const N: usize> PartialOrd for BigInt<N> {
    #[verifier::external_body]
    fn partial_cmp(&self, other: &Self) -> (r: Option<Ordering>) { unimplemented!() }
}

fn test<const N: usize>(a: &BigInt<N>, b: &BigInt<N>) -> (r: bool)
    ensures r == (val(b.0@, N as nat) > val(a.0@, N as nat))
{
    if *b > *a { true } else { false }
}
fn test2<const N: usize>(a: &BigInt<N>, b: &BigInt<N>) -> (r: bool)
    ensures r == (a.0@ == b.0@)
{
    *a == *b
}

} // verus!
fn main() {}
