//! Checks on the SHIPPED configurations (every crate under /repo/curves, compiled through manifest-only shims, and the
//! modules of /repo/test-curves).  Two kinds of groups:
//!   * ground checks (C16): the configuration invariant the Verus contracts take as a precondition (`mont_wf`) and the
//!     defining equation of every declared constant, evaluated on every shipped configuration.  The quantifier of C16
//!     ("every shipped configuration") is the finite list below, so these are complete for the listed facts.
//!   * sampled stand-ins (C04 GLV / C06 / C12 / C13): the generic code instantiated at the shipped parameters, edge cases
//!     plus seeded random samples; labelled bounded/sampled, never counted as proved.
//!   shipped <group> <seed>   prints `CASES <n>`, `FAIL <description>` per failure; exit 1 on failure.
mod curves;
mod fields;
mod h2c;
mod pairing;

use num_bigint::BigUint;

pub struct Tally {
    pub cases: u64,
    pub fails: Vec<String>,
}
impl Tally {
    pub fn new() -> Self { Tally { cases: 0, fails: vec![] } }
    pub fn check(&mut self, ok: bool, desc: impl FnOnce() -> String) {
        self.cases += 1;
        if !ok && self.fails.len() < 200 {
            let d = desc();
            let key = d.split(" (first at").next().unwrap_or("").to_string();
            if !self.fails.iter().any(|f| f.split(" (first at").next().unwrap_or("") == key) { self.fails.push(d); }
        }
    }
    pub fn no_panic<R>(&mut self, f: impl FnOnce() -> R, desc: impl FnOnce() -> String) -> Option<R> {
        match std::panic::catch_unwind(std::panic::AssertUnwindSafe(f)) {
            Ok(r) => Some(r),
            Err(_) => {
                self.cases += 1;
                let d = format!("PANIC {}", desc());
                if self.fails.len() < 200 && !self.fails.contains(&d) { self.fails.push(d); }
                None
            },
        }
    }
}

pub struct Rng(pub u64);
impl Rng {
    pub fn next(&mut self) -> u64 {
        self.0 ^= self.0 << 13;
        self.0 ^= self.0 >> 7;
        self.0 ^= self.0 << 17;
        self.0.wrapping_mul(0x2545F4914F6CDD1D)
    }
    pub fn std(&mut self) -> ark_std::rand::rngs::StdRng {
        use ark_std::rand::SeedableRng;
        ark_std::rand::rngs::StdRng::seed_from_u64(self.next())
    }
}

pub fn limbs_to_big(l: &[u64]) -> BigUint {
    let mut b = vec![];
    for x in l { b.extend_from_slice(&x.to_le_bytes()); }
    BigUint::from_bytes_le(&b)
}
pub fn big_to_limbs(b: &BigUint) -> Vec<u64> {
    let mut v = b.to_u64_digits();
    if v.is_empty() { v.push(0); }
    v
}

fn main() {
    let args: Vec<String> = std::env::args().collect();
    let group = args[1].as_str();
    let seed: u64 = args.get(2).and_then(|s| s.parse().ok()).unwrap_or(1);
    std::panic::set_hook(Box::new(|info| {
        if let Ok(mut g) = LAST_PANIC.lock() { *g = format!("{info}"); }
    }));
    let mut t = Tally::new();
    let mut rng = Rng(seed.wrapping_mul(0x9E3779B97F4A7C15) | 1);
    let r = std::panic::catch_unwind(std::panic::AssertUnwindSafe(|| run(group, &mut t, &mut rng)));
    if r.is_err() {
        t.fails.push(format!("uncaught panic in group {group}: {}", LAST_PANIC.lock().map(|g| g.clone()).unwrap_or_default()));
    }
    println!("CASES {}", t.cases);
    for f in &t.fails {
        println!("FAIL {f}");
    }
    std::process::exit(if t.fails.is_empty() { 0 } else { 1 });
}

pub static LAST_PANIC: std::sync::Mutex<String> = std::sync::Mutex::new(String::new());

fn run(group: &str, t: &mut Tally, rng: &mut Rng) {
    match group {
        "fields" => fields::all(t, rng),
        "curves" => curves::consistency(t, rng),
        "scalar" => curves::scalar_paths(t, rng),
        "subgroup" => curves::subgroup(t, rng),
        "msm" => curves::msm(t, rng),
        "pairing" => pairing::all(t, rng, false),
        "pairing_big" => pairing::all(t, rng, true),
        "target" => pairing::all_target(t, rng),
        "h2c" => h2c::all(t, rng),
        "inventory" => {
            // one line per configuration exercised, compared by the driver with the impl sites found in the source tree
            for l in fields::INVENTORY.iter().chain(curves::INVENTORY.iter()).chain(pairing::INVENTORY.iter()).chain(h2c::INVENTORY.iter()) {
                println!("INV {l}");
            }
        },
        _ => {
            println!("unknown group {group}");
            std::process::exit(2);
        },
    }
}
