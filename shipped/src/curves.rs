//! Shipped curves: C16 (curve part), C04 (scalar paths incl. GLV at the shipped parameters), C12 (subgroup tests / cofactor clearing).
//! Oracle for k*P: `naive`, a bit-by-bit double-and-add over the group operators only (`double_in_place`, `+=`), which never
//! enters the configuration hooks `mul_projective` / `mul_affine` / GLV that the curve crates override.
use crate::fields::{field_order, modulus, to_big};
use crate::{big_to_limbs, limbs_to_big, Rng, Tally};
use ark_ec::{
    models::CurveConfig,
    scalar_mul::glv::GLVConfig,
    short_weierstrass::{self as sw, SWCurveConfig},
    twisted_edwards::{self as te, MontCurveConfig, TECurveConfig},
    AdditiveGroup, AffineRepr, CurveGroup, PrimeGroup,
};
use ark_ff::{Field, One, PrimeField, UniformRand, Zero};
use num_bigint::BigUint;
use num_traits::One as _;

pub fn naive<G: AdditiveGroup>(p: &G, k: &BigUint) -> G {
    let mut acc = G::zero();
    for i in (0..k.bits()).rev() {
        acc.double_in_place();
        if k.bit(i) { acc += *p; }
    }
    acc
}

fn isqrt_ceil(n: &BigUint) -> BigUint { let s = n.sqrt(); if &s * &s == *n { s } else { s + 1u8 } }

fn common<C: CurveConfig>(t: &mut Tally, name: &str) -> (BigUint, BigUint) {
    let r = modulus::<C::ScalarField>();
    let h = limbs_to_big(C::COFACTOR);
    t.check(!h.is_zero_big(), || format!("{name}: COFACTOR is zero"));
    let hinv = to_big(&C::COFACTOR_INV);
    t.check((&h * &hinv) % &r == BigUint::one() % &r, || format!("{name}: COFACTOR_INV * COFACTOR != 1 mod r"));
    t.check(C::cofactor_is_one() == h.is_one(), || format!("{name}: cofactor_is_one()"));
    // Hasse: the group order h*r lies in [q + 1 - 2 sqrt q, q + 1 + 2 sqrt q]
    let q = field_order::<C::BaseField>();
    let n = &h * &r;
    let qp1 = &q + 1u8;
    let diff = if n > qp1 { &n - &qp1 } else { &qp1 - &n };
    t.check(diff <= isqrt_ceil(&(&q << 2u32)), || format!("{name}: COFACTOR * r outside the Hasse interval"));
    (r, h)
}
trait IsZeroBig { fn is_zero_big(&self) -> bool; }
impl IsZeroBig for BigUint { fn is_zero_big(&self) -> bool { self.bits() == 0 } }

fn sw_on_curve<C: SWCurveConfig>(x: C::BaseField, y: C::BaseField) -> bool { y.square() == x.square() * x + C::COEFF_A * x + C::COEFF_B }
fn te_on_curve<C: TECurveConfig>(x: C::BaseField, y: C::BaseField) -> bool { C::COEFF_A * x.square() + y.square() == C::BaseField::one() + C::COEFF_D * x.square() * y.square() }

fn sw_sample<C: SWCurveConfig>(rng: &mut Rng, n: usize) -> Vec<sw::Affine<C>> {
    let mut r = rng.std();
    let mut v = vec![];
    while v.len() < n {
        let x = C::BaseField::rand(&mut r);
        if let Some(p) = sw::Affine::<C>::get_point_from_x_unchecked(x, v.len() % 2 == 0) { v.push(p); }
    }
    v
}
fn te_sample<C: TECurveConfig>(rng: &mut Rng, n: usize) -> Vec<te::Affine<C>> {
    let mut r = rng.std();
    let mut v = vec![];
    while v.len() < n {
        let y = C::BaseField::rand(&mut r);
        if let Some(p) = te::Affine::<C>::get_point_from_y_unchecked(y, v.len() % 2 == 0) { v.push(p); }
    }
    v
}

// ------------------------------------------------------------------------------------------------ C16
pub fn sw_consistency<C: SWCurveConfig>(t: &mut Tally, name: &str, rng: &mut Rng) {
    let (r, h) = common::<C>(t, name);
    let g = C::GENERATOR;
    t.check(!g.infinity && sw_on_curve::<C>(g.x, g.y) && g.is_on_curve(), || format!("{name}: GENERATOR is not on the curve"));
    let gp: sw::Projective<C> = g.into();
    t.check(naive(&gp, &r).is_zero() && !gp.is_zero(), || format!("{name}: GENERATOR does not have order r"));
    t.check(sw::Projective::<C>::generator() == gp && sw::Affine::<C>::generator() == g, || format!("{name}: generator()"));
    let mut rr = rng.std();
    for _ in 0..3 {
        let x = C::BaseField::rand(&mut rr);
        t.check(C::mul_by_a(x) == C::COEFF_A * x && C::add_b(x) == x + C::COEFF_B, || format!("{name}: mul_by_a / add_b"));
    }
    // the whole curve group has order COFACTOR * r
    let n = &h * &r;
    for p in sw_sample::<C>(rng, 3) {
        t.check(sw_on_curve::<C>(p.x, p.y) && p.is_on_curve(), || format!("{name}: get_point_from_x_unchecked off the curve"));
        t.check(naive(&p.into_group(), &n).is_zero(), || format!("{name}: (COFACTOR * r) * P != 0 for a random curve point"));
    }
}
pub fn te_consistency<C: TECurveConfig>(t: &mut Tally, name: &str, rng: &mut Rng) {
    let (r, h) = common::<C>(t, name);
    let g = C::GENERATOR;
    t.check(te_on_curve::<C>(g.x, g.y) && g.is_on_curve(), || format!("{name}: GENERATOR is not on the curve"));
    let gp: te::Projective<C> = g.into();
    t.check(naive(&gp, &r).is_zero() && !gp.is_zero(), || format!("{name}: GENERATOR does not have order r"));
    let mut rr = rng.std();
    for _ in 0..3 {
        let x = C::BaseField::rand(&mut rr);
        t.check(C::mul_by_a(x) == C::COEFF_A * x, || format!("{name}: mul_by_a"));
    }
    let n = &h * &r;
    for p in te_sample::<C>(rng, 3) {
        t.check(te_on_curve::<C>(p.x, p.y) && p.is_on_curve(), || format!("{name}: get_point_from_y_unchecked off the curve"));
        t.check(naive(&p.into_group(), &n).is_zero(), || format!("{name}: (COFACTOR * r) * P != 0 for a random curve point"));
    }
    // birationally equivalent Montgomery form: A = 2(a+d)/(a-d), B = 4/(a-d)
    let (a, d) = (C::COEFF_A, C::COEFF_D);
    let amd = (a - d).inverse();
    t.check(amd.is_some() && !a.is_zero() && !d.is_zero(), || format!("{name}: degenerate Edwards coefficients"));
    if let Some(i) = amd {
        let two = C::BaseField::one().double();
        t.check(<C::MontCurveConfig as MontCurveConfig>::COEFF_A == two * (a + d) * i, || format!("{name}: Montgomery COEFF_A != 2(a+d)/(a-d)"));
        // B is fixed only up to a square factor (rescaling x of the Edwards form, as bls12_377 g1 does to reach a = -1)
        let ratio = <C::MontCurveConfig as MontCurveConfig>::COEFF_B * (a - d) * two.double().inverse().unwrap();
        t.check(ratio.legendre().is_qr(), || format!("{name}: Montgomery COEFF_B is not 4/(a-d) up to a square"));
    }
}

/// hash-to-curve constants are configuration constants too (C16): Elligator 2 quotients, SWU non-square, isogenous curve
pub fn ell2_consistency<C: ark_ec::hashing::curve_maps::elligator2::Elligator2Config>(t: &mut Tally, name: &str, _rng: &mut Rng) {
    let (a, b) = (<C as MontCurveConfig>::COEFF_A, <C as MontCurveConfig>::COEFF_B);
    t.check(!b.is_zero() && C::ONE_OVER_COEFF_B_SQUARE * b.square() == C::BaseField::one(), || format!("{name}: ONE_OVER_COEFF_B_SQUARE != 1 / COEFF_B^2"));
    t.check(C::COEFF_A_OVER_COEFF_B * b == a, || format!("{name}: COEFF_A_OVER_COEFF_B != COEFF_A / COEFF_B"));
    t.check(C::Z.legendre().is_qnr(), || format!("{name}: Elligator2 Z is a square"));
}
pub fn swu_consistency<C: ark_ec::hashing::curve_maps::wb::WBConfig>(t: &mut Tally, name: &str, _rng: &mut Rng) {
    use ark_ec::hashing::curve_maps::swu::SWUConfig;
    t.check(<C::IsogenousCurve as SWUConfig>::ZETA.legendre().is_qnr(), || format!("{name}: SWU ZETA of the isogenous curve is a square"));
    t.check(!<C::IsogenousCurve as SWCurveConfig>::COEFF_A.is_zero() && !<C::IsogenousCurve as SWCurveConfig>::COEFF_B.is_zero(), || format!("{name}: isogenous curve has a = 0 or b = 0"));
    let g = <C::IsogenousCurve as SWCurveConfig>::GENERATOR;
    t.check(sw_on_curve::<C::IsogenousCurve>(g.x, g.y), || format!("{name}: generator of the isogenous curve is not on it"));
    let m = &C::ISOGENY_MAP;
    t.check(m.x_map_numerator.len() == m.x_map_denominator.len() + 1 || m.x_map_numerator.len() == m.x_map_denominator.len(), || format!("{name}: isogeny x-map degrees inconsistent"));
}

pub fn glv_consistency<C: GLVConfig>(t: &mut Tally, name: &str, rng: &mut Rng) {
    let r = modulus::<C::ScalarField>();
    let lam = to_big(&C::LAMBDA);
    let g: sw::Projective<C> = C::GENERATOR.into();
    let mut rr = rng.std();
    let half_bits = (r.bits() + 1) / 2 + 2;
    let mut pts = vec![g, g.double(), sw::Projective::<C>::zero()];
    for _ in 0..2 { pts.push(naive(&g, &to_big(&C::ScalarField::rand(&mut rr)))); }
    for p in &pts {
        // the endomorphism acts as multiplication by LAMBDA on the prime-order subgroup
        t.check(C::endomorphism(p) == naive(p, &lam), || format!("{name}: endomorphism(P) != LAMBDA * P"));
        t.check(C::endomorphism_affine(&p.into_affine()).into_group() == naive(p, &lam), || format!("{name}: endomorphism_affine(P) != LAMBDA * P"));
    }
    let mut ks: Vec<BigUint> = vec![0u8.into(), 1u8.into(), 2u8.into(), &r - 1u8, &r - 2u8, lam.clone(), (&lam + 1u8) % &r, (&lam + &r - 1u8) % &r, &r >> 1u32, (&r >> 1u32) + 1u8, BigUint::one() << (r.bits() / 2), (BigUint::one() << (r.bits() / 2)) - 1u8];
    for _ in 0..12 { ks.push(to_big(&C::ScalarField::rand(&mut rr))); }
    for k in &ks {
        let kf = C::ScalarField::from_le_bytes_mod_order(&k.to_bytes_le());
        let ((s1, k1), (s2, k2)) = C::scalar_decomposition(kf);
        let (b1, b2) = (to_big(&k1), to_big(&k2));
        // k = (+-k1) + LAMBDA * (+-k2) mod r, with both halves short
        let t1 = if s1 { k1 } else { -k1 };
        let t2 = if s2 { k2 } else { -k2 };
        t.check(t1 + C::LAMBDA * t2 == kf, || format!("{name}: scalar_decomposition({k}): k1 + LAMBDA k2 != k"));
        t.check(b1.bits() <= half_bits && b2.bits() <= half_bits, || format!("{name}: scalar_decomposition({k}): halves of {} and {} bits", b1.bits(), b2.bits()));
        for p in &pts[..4] {
            let e = naive(p, k);
            t.check(C::glv_mul_projective(*p, kf) == e, || format!("{name}: glv_mul_projective by {k}"));
            t.check(C::glv_mul_affine(p.into_affine(), kf).into_group() == e, || format!("{name}: glv_mul_affine by {k}"));
        }
    }
}

// ------------------------------------------------------------------------------------------------ C04 on shipped curves
/// every public multiplication entry point, raw integers of any length (leading zero limbs, >= r, >= 2^(64 N)), subgroup points
pub fn scalar_group<G: CurveGroup>(t: &mut Tally, name: &str, rng: &mut Rng) where G::ScalarField: PrimeField {
    let r = modulus::<G::ScalarField>();
    let nl = big_to_limbs(&r).len();
    let mut rr = rng.std();
    let g = G::generator();
    let pts = [g, naive(&g, &to_big(&G::ScalarField::rand(&mut rr))), G::zero()];
    let mut ks: Vec<Vec<u64>> = vec![vec![], vec![0], vec![1], vec![2], vec![u64::MAX], vec![0, 1], vec![u64::MAX, u64::MAX, 1]];
    for d in [0u8, 1, 2] { ks.push(big_to_limbs(&(&r - d))); ks.push(big_to_limbs(&(&r + d))); }
    ks.push(big_to_limbs(&(&r * 3u8 + 5u8)));
    ks.push(vec![u64::MAX; nl]);
    ks.push(big_to_limbs(&(BigUint::one() << (64 * nl))));           // one limb more than the scalar field
    ks.push(big_to_limbs(&((BigUint::one() << (64 * nl + 70)) + 12345u32)));
    for _ in 0..4 { ks.push((0..nl).map(|_| rng.next()).collect()); }
    // leading zero limbs, up to two limbs beyond the field width
    let with_zeros: Vec<Vec<u64>> = ks.iter().take(12).flat_map(|k| (1..=3).map(move |z| { let mut v = k.clone(); v.extend(std::iter::repeat(0).take(z)); v })).collect();
    ks.extend(with_zeros);
    // one report per entry point: first witness + number of failing (point, scalar) pairs
    let mut bad: std::collections::BTreeMap<&'static str, (String, usize)> = Default::default();
    let mut note = |t: &mut Tally, kind: &'static str, ok: bool, w: &dyn Fn() -> String| {
        t.cases += 1;
        if !ok { let e = bad.entry(kind).or_insert_with(|| (w(), 0)); e.1 += 1; }
    };
    let guarded = |f: &dyn Fn() -> G| -> Option<G> { std::panic::catch_unwind(std::panic::AssertUnwindSafe(f)).ok() };
    for p in &pts {
        let aff = p.into_affine();
        for k in &ks {
            let kb = limbs_to_big(k);
            let e = naive(p, &kb);
            let shape = if k.len() > nl { "longer than the scalar field" } else { "within the scalar-field width" };
            match guarded(&|| p.mul_bigint(k)) {
                Some(x) => note(t, "mul_bigint", x == e, &|| format!("mul_bigint({k:?}) != k*P")),
                None => note(t, if k.len() > nl { "mul_bigint panics (long scalar)" } else { "mul_bigint panics" }, false, &|| format!("mul_bigint({k:?}) ({} limbs, {shape}) panics: {}", k.len(), crate::LAST_PANIC.lock().map(|g| g.clone()).unwrap_or_default().replace('\n', " "))),
            }
            match guarded(&|| aff.mul_bigint(k)) {
                Some(x) => note(t, "affine mul_bigint", x == e, &|| format!("affine mul_bigint({k:?}) != k*P")),
                None => note(t, if k.len() > nl { "affine mul_bigint panics (long scalar)" } else { "affine mul_bigint panics" }, false, &|| format!("affine mul_bigint({k:?}) ({} limbs, {shape}) panics: {}", k.len(), crate::LAST_PANIC.lock().map(|g| g.clone()).unwrap_or_default().replace('\n', " "))),
            }
            let be: Vec<bool> = (0..(64 * k.len())).rev().map(|i| (k[i / 64] >> (i % 64)) & 1 == 1).collect();
            match guarded(&|| p.mul_bits_be(be.iter().cloned())) {
                Some(x) => note(t, "mul_bits_be", x == e, &|| format!("mul_bits_be(bits of {k:?}) != k*P")),
                None => note(t, "mul_bits_be panics", false, &|| format!("mul_bits_be(bits of {k:?}) panics")),
            }
            if kb < r {
                let s = G::ScalarField::from_le_bytes_mod_order(&kb.to_bytes_le());
                note(t, "Mul<ScalarField>", *p * s == e && aff * s == e, &|| format!("P * Fr({kb}) != k*P"));
                let mut q = *p; q *= s;
                note(t, "MulAssign<ScalarField>", q == e, &|| format!("P *= Fr({kb}) != k*P"));
            }
        }
    }
    // fixed-base batch multiplication: table sizings on both sides of the window thresholds (window 3 below 32 scalars,
    // ln-based above), scalar fields whose bit size is / is not a multiple of the window, scalars at the top of the field
    {
        use ark_ec::scalar_mul::BatchMulPreprocessing;
        let rm1 = G::ScalarField::from_le_bytes_mod_order(&(&r - 1u8).to_bytes_le());
        for n in [1usize, 3, 31, 32, 33, 129, 257] {
            let mut scal: Vec<G::ScalarField> = (0..n).map(|i| match i % 5 { 0 => G::ScalarField::rand(&mut rr), 1 => rm1, 2 => G::ScalarField::from(i as u64), 3 => -G::ScalarField::from(i as u64 + 1), _ => G::ScalarField::rand(&mut rr) }).collect();
            scal[0] = rm1;
            let want: Vec<G> = scal.iter().map(|s| naive(&g, &to_big(s))).collect();
            let sc = scal.clone();
            match std::panic::catch_unwind(std::panic::AssertUnwindSafe(move || g.batch_mul(&sc))) {
                Ok(got) => note(t, "batch_mul", got.len() == n && got.iter().zip(&want).all(|(a, b)| G::from(*a) == *b), &|| format!("batch_mul of {n} scalars != [k_i * G]")),
                Err(_) => note(t, "batch_mul panics", false, &|| format!("batch_mul of {n} scalars panics: {}", crate::LAST_PANIC.lock().map(|g| g.clone()).unwrap_or_default().replace('\n', " "))),
            }
            let sc = scal.clone();
            match std::panic::catch_unwind(std::panic::AssertUnwindSafe(move || { let tb = BatchMulPreprocessing::new(g, n); tb.batch_mul(&sc) })) {
                Ok(got) => note(t, "BatchMulPreprocessing", got.len() == n && got.iter().zip(&want).all(|(a, b)| G::from(*a) == *b), &|| format!("BatchMulPreprocessing::new(g, {n}).batch_mul != [k_i * G]")),
                Err(_) => note(t, "BatchMulPreprocessing panics", false, &|| format!("BatchMulPreprocessing::new(g, {n}).batch_mul panics")),
            }
        }
    }
    for (kind, (w, n)) in bad {
        t.fails.push(format!("{name}: {kind}: {w} [{n} failing (point, scalar) pairs]"));
    }
}

// ------------------------------------------------------------------------------------------------ C12 on shipped curves
/// small prime factors (< 2^20) of the cofactor, with multiplicity folded: (l, l^e) for every prime l < 2^20 dividing h
fn small_prime_powers(h: &BigUint) -> Vec<(u32, BigUint)> {
    let mut out = vec![];
    let mut m = h.clone();
    let mut l = 2u32;
    while l < (1 << 20) && m > BigUint::one() {
        if (&m % l).is_zero() {
            let mut pe = BigUint::one();
            while (&m % l).is_zero() { m /= l; pe *= l; }
            out.push((l, pe));
        }
        l += if l == 2 { 1 } else { 2 };
    }
    out
}

/// from a point T of the cofactor torsion (T = r * P): for every small prime l | h the points of l-power order obtained from
/// (h / l^e) * T by repeated multiplication by l, down to order exactly l.  These are the points on which coordinate-only or
/// eigenvalue-only fast subgroup tests are most likely to err (e.g. the order-3 points (0, +-2) of BLS12-381 G1).
fn small_order_points<G: CurveGroup>(tors: &[G], h: &BigUint) -> Vec<G> {
    let mut out = vec![];
    for (l, pe) in small_prime_powers(h) {
        let m = h / &pe;
        for t0 in tors {
            let mut u = naive(t0, &m);
            let mut guard = 0;
            while !u.is_zero() && guard < 80 {
                out.push(u);
                u = naive(&u, &BigUint::from(l));
                guard += 1;
            }
        }
    }
    out
}
pub fn sw_subgroup<C: SWCurveConfig>(t: &mut Tally, name: &str, rng: &mut Rng) {
    let r = modulus::<C::ScalarField>();
    let h = limbs_to_big(C::COFACTOR);
    let g: sw::Projective<C> = C::GENERATOR.into();
    let mut pts: Vec<sw::Affine<C>> = sw_sample::<C>(rng, 6);
    // points of small order (r*P lies in the cofactor part), mixed points, subgroup points, identity
    let small: Vec<sw::Affine<C>> = pts.iter().take(3).map(|p| naive(&p.into_group(), &r).into_affine()).collect();
    let sub: Vec<sw::Affine<C>> = pts.iter().take(2).map(|p| naive(&p.into_group(), &h).into_affine()).collect();
    pts.extend(small.iter().cloned());
    pts.extend(small.iter().map(|s| (s.into_group() + g).into_affine()));
    pts.extend(sub);
    // points of small prime-power order, alone and shifted by the generator
    let tors: Vec<sw::Projective<C>> = small.iter().map(|s| s.into_group()).collect();
    let lows = small_order_points(&tors, &h);
    pts.extend(lows.iter().map(|u| u.into_affine()));
    pts.extend(lows.iter().map(|u| (*u + g).into_affine()));
    pts.push(C::GENERATOR);
    pts.push(sw::Affine::<C>::identity());
    let mut cleared = vec![];
    for p in &pts {
        let in_sub = naive(&p.into_group(), &r).is_zero();
        t.check(p.is_in_correct_subgroup_assuming_on_curve() == in_sub, || format!("{name}: subgroup test says {} but r*P {} the identity (P = {p})", !in_sub, if in_sub { "is" } else { "is not" }));
        let c = p.clear_cofactor();
        t.check(c.is_on_curve() && naive(&c.into_group(), &r).is_zero(), || format!("{name}: clear_cofactor(P) is not in the prime-order subgroup"));
        t.check(p.mul_by_cofactor_to_group() == naive(&p.into_group(), &h) && p.mul_by_cofactor().into_group() == naive(&p.into_group(), &h), || format!("{name}: mul_by_cofactor != COFACTOR * P"));
        if in_sub { t.check(p.mul_by_cofactor().mul_by_cofactor_inv() == *p && p.mul_by_cofactor_inv().mul_by_cofactor() == *p, || format!("{name}: cofactor * cofactor_inv is not the identity map on the subgroup")); }
        cleared.push(c);
    }
    // clearing is multiplication by ONE fixed integer: additive, and non-trivial on the subgroup (integer coprime to r)
    for i in 0..pts.len().min(6) {
        let j = (i + 3) % pts.len();
        let s = (pts[i].into_group() + pts[j]).into_affine();
        t.check(s.clear_cofactor().into_group() == cleared[i].into_group() + cleared[j], || format!("{name}: clear_cofactor is not additive"));
    }
    t.check(!C::GENERATOR.clear_cofactor().is_zero(), || format!("{name}: clear_cofactor kills the subgroup generator"));
    let mut rr = rng.std();
    for _ in 0..3 {
        let p = sw::Projective::<C>::rand(&mut rr);
        t.check(naive(&p, &r).is_zero(), || format!("{name}: Projective::rand outside the subgroup"));
        let a = sw::Affine::<C>::rand(&mut rr);
        t.check(a.is_on_curve() && naive(&a.into_group(), &r).is_zero(), || format!("{name}: Affine::rand outside the subgroup"));
    }
}
pub fn te_subgroup<C: TECurveConfig>(t: &mut Tally, name: &str, rng: &mut Rng) {
    let r = modulus::<C::ScalarField>();
    let h = limbs_to_big(C::COFACTOR);
    let g: te::Projective<C> = C::GENERATOR.into();
    // The unified Edwards law is complete on the whole curve only when a is a square and d is not (Bernstein-Lange);
    // otherwise (bandersnatch: a = -5 is a non-square) it has exceptional pairs among points OUTSIDE the prime-order
    // subgroup, whose sums have no affine image.  There the points fed to the code are restricted to those for which every
    // oracle step is defined (a step that hits an exceptional pair drops the point).
    let complete = C::COEFF_A.legendre().is_qr() && C::COEFF_D.legendre().is_qnr();
    let defined = |f: &dyn Fn() -> te::Affine<C>| -> Option<te::Affine<C>> {
        if complete { Some(f()) } else { std::panic::catch_unwind(std::panic::AssertUnwindSafe(f)).ok().filter(|p| p.is_on_curve()) }
    };
    let mut pts: Vec<te::Affine<C>> = te_sample::<C>(rng, 6);
    let small: Vec<te::Affine<C>> = pts.iter().take(3).filter_map(|p| defined(&|| naive(&p.into_group(), &r).into_affine())).collect();
    let sub: Vec<te::Affine<C>> = pts.iter().take(2).filter_map(|p| defined(&|| naive(&p.into_group(), &h).into_affine())).collect();
    pts.extend(small.iter().cloned());
    pts.extend(small.iter().filter_map(|s| defined(&|| (s.into_group() + g).into_affine())));
    pts.extend(sub);
    // points of small prime-power order (2, 4, 8 for the usual Edwards cofactors), alone and shifted by the generator
    if complete {
        let tors: Vec<te::Projective<C>> = small.iter().map(|s| s.into_group()).collect();
        let lows = small_order_points(&tors, &h);
        pts.extend(lows.iter().map(|u| u.into_affine()));
        pts.extend(lows.iter().map(|u| (*u + g).into_affine()));
    }
    pts.push(C::GENERATOR);
    pts.push(te::Affine::<C>::zero());
    let mut cleared = vec![];
    let mut kept = vec![];
    for p in &pts {
        let in_sub = match std::panic::catch_unwind(std::panic::AssertUnwindSafe(|| naive(&p.into_group(), &r).is_zero())) { Ok(b) => b, Err(_) if !complete => continue, Err(_) => { t.check(false, || format!("{name}: oracle panicked on a complete curve")); continue } };
        let hp = naive(&p.into_group(), &h);
        if !complete && defined(&|| hp.into_affine()).is_none() { continue; }
        t.check(p.is_in_correct_subgroup_assuming_on_curve() == in_sub, || format!("{name}: subgroup test says {} but r*P {} the identity (P = {p})", !in_sub, if in_sub { "is" } else { "is not" }));
        let c = p.clear_cofactor();
        t.check(c.is_on_curve() && naive(&c.into_group(), &r).is_zero(), || format!("{name}: clear_cofactor(P) is not in the prime-order subgroup"));
        t.check(p.mul_by_cofactor_to_group() == hp, || format!("{name}: mul_by_cofactor != COFACTOR * P"));
        if in_sub { t.check(p.mul_by_cofactor().mul_by_cofactor_inv() == *p && p.mul_by_cofactor_inv().mul_by_cofactor() == *p, || format!("{name}: cofactor * cofactor_inv is not the identity map on the subgroup")); }
        cleared.push(c);
        kept.push(*p);
    }
    for i in 0..kept.len().min(6) {
        let j = (i + 3) % kept.len();
        if let Some(s) = defined(&|| (kept[i].into_group() + kept[j]).into_affine()) {
            t.check(s.clear_cofactor().into_group() == cleared[i].into_group() + cleared[j], || format!("{name}: clear_cofactor is not additive"));
        }
    }
    t.check(!C::GENERATOR.clear_cofactor().is_zero(), || format!("{name}: clear_cofactor kills the subgroup generator"));
    let mut rr = rng.std();
    for _ in 0..3 {
        let p = te::Projective::<C>::rand(&mut rr);
        t.check(naive(&p, &r).is_zero(), || format!("{name}: Projective::rand outside the subgroup"));
    }
}

// ------------------------------------------------------------------------------------------------ C05 on shipped curves
/// multi-limb scalar fields (bit sizes that are / are not multiples of 64): every msm entry point against the naive sum, for
/// lengths on both sides of the window-size switches, with full-width seeded scalars and limb-boundary scalars
pub fn msm_group<G: CurveGroup + ark_ec::scalar_mul::variable_base::VariableBaseMSM>(t: &mut Tally, name: &str, rng: &mut Rng) where G::ScalarField: PrimeField {
    let r = modulus::<G::ScalarField>();
    let nl = big_to_limbs(&r).len();
    let g = G::generator();
    // a pool of subgroup points: small multiples and a few seeded ones
    let mut pool: Vec<G> = vec![G::zero(), g];
    for k in 2..8u32 { pool.push(naive(&g, &BigUint::from(k))); }
    for _ in 0..4 { let k: BigUint = limbs_to_big(&(0..nl).map(|_| rng.next()).collect::<Vec<u64>>()) % &r; pool.push(naive(&g, &k)); }
    let pool_aff = G::batch_convert_to_mul_base(&pool);
    let mut edge: Vec<BigUint> = vec![BigUint::from(0u8), BigUint::one(), BigUint::from(2u8), &r - 1u8, &r - 2u8, &r >> 1, (&r >> 1) + 1u8];
    for l in 1..nl { for d in [0u8, 1] { edge.push(((BigUint::one() << (64 * l)) - d) % &r); edge.push(((BigUint::one() << (64 * l - 1)) + d) % &r); } }
    for b in 0..8u32 { let top = r.bits() as u32 - 1; if top > b { edge.push((BigUint::one() << (top - b)) % &r); edge.push(((BigUint::one() << (top - b)) - 1u8) % &r); } }
    let to_fr = |k: &BigUint| G::ScalarField::from_le_bytes_mod_order(&k.to_bytes_le());
    for len in [0usize, 1, 2, 3, 5, 31, 32, 33, 129, 257] {
        for round in 0..2 {
            let idx: Vec<usize> = (0..len).map(|i| if round == 1 && i % 5 == 0 { i % 2 } else { (rng.next() as usize) % pool.len() }).collect();
            let bases: Vec<G::MulBase> = idx.iter().map(|i| pool_aff[*i]).collect();
            let ks: Vec<BigUint> = (0..len).map(|i| if round == 1 { edge[(i * 7 + len) % edge.len()].clone() } else { limbs_to_big(&(0..nl).map(|_| rng.next()).collect::<Vec<u64>>()) % &r }).collect();
            let scalars: Vec<G::ScalarField> = ks.iter().map(|k| to_fr(k)).collect();
            let mut e = G::zero();
            for (i, k) in idx.iter().zip(&ks) { e += naive(&pool[*i], k); }
            t.check(G::msm(&bases, &scalars) == Ok(e), || format!("{name}: msm of length {len} != sum k_i P_i ({})", if round == 1 { "limb-boundary scalars" } else { "seeded full-width scalars" }));
            t.check(G::msm_unchecked(&bases, &scalars) == e, || format!("{name}: msm_unchecked of length {len} != sum k_i P_i"));
            let bigs: Vec<_> = scalars.iter().map(|x| x.into_bigint()).collect();
            t.check(G::msm_bigint(&bases, &bigs) == e, || format!("{name}: msm_bigint of length {len} != sum k_i P_i"));
            t.check(G::msm_chunks(&bases.as_slice(), &scalars.as_slice()) == e, || format!("{name}: msm_chunks of length {len} != sum k_i P_i"));
            if len >= 2 {
                t.check(G::msm(&bases[..len - 1], &scalars) == Err(len - 1), || format!("{name}: msm length mismatch not reported (len {len})"));
            }
        }
    }
}

/// one configuration's panic must not hide the others
pub fn guard(t: &mut Tally, name: &str, rng: &mut Rng, f: fn(&mut Tally, &str, &mut Rng)) {
    let r = std::panic::catch_unwind(std::panic::AssertUnwindSafe(|| f(t, name, rng)));
    if r.is_err() {
        let msg = crate::LAST_PANIC.lock().map(|g| g.clone()).unwrap_or_default();
        t.check(false, || format!("PANIC {name}: {msg}"));
    }
}

macro_rules! inventory {
    ($( $kind:ident $path:path, $name:expr; )*) => {
        pub const INVENTORY: &[&str] = &[ $( concat!(stringify!($kind), " ", $name) ),* ];
        pub fn consistency(t: &mut Tally, rng: &mut Rng) { $( inventory!(@cons $kind $path, $name, t, rng); )* }
        pub fn scalar_paths(t: &mut Tally, rng: &mut Rng) { $( inventory!(@scal $kind $path, $name, t, rng); )* }
        pub fn subgroup(t: &mut Tally, rng: &mut Rng) { $( inventory!(@sub $kind $path, $name, t, rng); )* }
        pub fn msm(t: &mut Tally, rng: &mut Rng) { $( inventory!(@msm $kind $path, $name, t, rng); )* }
    };
    (@msm sw $path:path, $name:expr, $t:ident, $rng:ident) => { guard($t, $name, $rng, msm_group::<sw::Projective<$path>>); };
    (@msm te $path:path, $name:expr, $t:ident, $rng:ident) => { guard($t, $name, $rng, msm_group::<te::Projective<$path>>); };
    (@msm glv $path:path, $name:expr, $t:ident, $rng:ident) => {};
    (@msm ell2 $path:path, $name:expr, $t:ident, $rng:ident) => {};
    (@msm swuwb $path:path, $name:expr, $t:ident, $rng:ident) => {};
    (@cons sw $path:path, $name:expr, $t:ident, $rng:ident) => { guard($t, $name, $rng, sw_consistency::<$path>); };
    (@cons te $path:path, $name:expr, $t:ident, $rng:ident) => { guard($t, $name, $rng, te_consistency::<$path>); };
    (@cons glv $path:path, $name:expr, $t:ident, $rng:ident) => { guard($t, $name, $rng, glv_consistency::<$path>); };
    (@cons ell2 $path:path, $name:expr, $t:ident, $rng:ident) => { guard($t, $name, $rng, ell2_consistency::<$path>); };
    (@cons swuwb $path:path, $name:expr, $t:ident, $rng:ident) => { guard($t, $name, $rng, swu_consistency::<$path>); };
    (@scal sw $path:path, $name:expr, $t:ident, $rng:ident) => { guard($t, $name, $rng, scalar_group::<sw::Projective<$path>>); };
    (@scal te $path:path, $name:expr, $t:ident, $rng:ident) => { guard($t, $name, $rng, scalar_group::<te::Projective<$path>>); };
    (@scal glv $path:path, $name:expr, $t:ident, $rng:ident) => {};
    (@scal ell2 $path:path, $name:expr, $t:ident, $rng:ident) => {};
    (@scal swuwb $path:path, $name:expr, $t:ident, $rng:ident) => {};
    (@sub sw $path:path, $name:expr, $t:ident, $rng:ident) => { guard($t, $name, $rng, sw_subgroup::<$path>); };
    (@sub te $path:path, $name:expr, $t:ident, $rng:ident) => { guard($t, $name, $rng, te_subgroup::<$path>); };
    (@sub glv $path:path, $name:expr, $t:ident, $rng:ident) => {};
    (@sub ell2 $path:path, $name:expr, $t:ident, $rng:ident) => {};
    (@sub swuwb $path:path, $name:expr, $t:ident, $rng:ident) => {};
}

inventory! {
    sw ark_bls12_377::g1::Config, "curves/bls12_377 g1 (SW)";
    te ark_bls12_377::g1::Config, "curves/bls12_377 g1 (TE)";
    glv ark_bls12_377::g1::Config, "curves/bls12_377 g1 (GLV)";
    sw ark_bls12_377::g2::Config, "curves/bls12_377 g2 (SW)";
    glv ark_bls12_377::g2::Config, "curves/bls12_377 g2 (GLV)";
    sw ark_bls12_381::g1::Config, "curves/bls12_381 g1 (SW)";
    glv ark_bls12_381::g1::Config, "curves/bls12_381 g1 (GLV)";
    sw ark_bls12_381::g2::Config, "curves/bls12_381 g2 (SW)";
    glv ark_bls12_381::g2::Config, "curves/bls12_381 g2 (GLV)";
    sw ark_bn254::g1::Config, "curves/bn254 g1 (SW)";
    glv ark_bn254::g1::Config, "curves/bn254 g1 (GLV)";
    sw ark_bn254::g2::Config, "curves/bn254 g2 (SW)";
    glv ark_bn254::g2::Config, "curves/bn254 g2 (GLV)";
    sw ark_bw6_761::g1::Config, "curves/bw6_761 g1 (SW)";
    glv ark_bw6_761::g1::Config, "curves/bw6_761 g1 (GLV)";
    sw ark_bw6_761::g2::Config, "curves/bw6_761 g2 (SW)";
    glv ark_bw6_761::g2::Config, "curves/bw6_761 g2 (GLV)";
    sw ark_bw6_767::g1::Config, "curves/bw6_767 g1 (SW)";
    sw ark_bw6_767::g2::Config, "curves/bw6_767 g2 (SW)";
    sw ark_cp6_782::g1::Config, "curves/cp6_782 g1 (SW)";
    sw ark_cp6_782::g2::Config, "curves/cp6_782 g2 (SW)";
    te ark_curve25519::Curve25519Config, "curves/curve25519 (TE)";
    te ark_ed25519::EdwardsConfig, "curves/ed25519 (TE)";
    te ark_ed_on_bls12_377::EdwardsConfig, "curves/ed_on_bls12_377 (TE)";
    te ark_ed_on_bls12_381::JubjubConfig, "curves/ed_on_bls12_381 (TE)";
    sw ark_ed_on_bls12_381::JubjubConfig, "curves/ed_on_bls12_381 (SW)";
    te ark_ed_on_bls12_381_bandersnatch::BandersnatchConfig, "curves/ed_on_bls12_381_bandersnatch (TE)";
    sw ark_ed_on_bls12_381_bandersnatch::BandersnatchConfig, "curves/ed_on_bls12_381_bandersnatch (SW)";
    te ark_ed_on_bn254::EdwardsConfig, "curves/ed_on_bn254 (TE)";
    te ark_ed_on_cp6_782::EdwardsConfig, "curves/ed_on_cp6_782 (TE)";
    te ark_ed_on_mnt4_298::EdwardsConfig, "curves/ed_on_mnt4_298 (TE)";
    te ark_ed_on_mnt4_753::EdwardsConfig, "curves/ed_on_mnt4_753 (TE)";
    sw ark_grumpkin::GrumpkinConfig, "curves/grumpkin (SW)";
    sw ark_mnt4_298::g1::Config, "curves/mnt4_298 g1 (SW)";
    sw ark_mnt4_298::g2::Config, "curves/mnt4_298 g2 (SW)";
    sw ark_mnt4_753::g1::Config, "curves/mnt4_753 g1 (SW)";
    sw ark_mnt4_753::g2::Config, "curves/mnt4_753 g2 (SW)";
    sw ark_mnt6_298::g1::Config, "curves/mnt6_298 g1 (SW)";
    sw ark_mnt6_298::g2::Config, "curves/mnt6_298 g2 (SW)";
    sw ark_mnt6_753::g1::Config, "curves/mnt6_753 g1 (SW)";
    sw ark_mnt6_753::g2::Config, "curves/mnt6_753 g2 (SW)";
    sw ark_pallas::PallasConfig, "curves/pallas (SW)";
    glv ark_pallas::PallasConfig, "curves/pallas (GLV)";
    sw ark_secp256k1::Config, "curves/secp256k1 (SW)";
    sw ark_secp256r1::Config, "curves/secp256r1 (SW)";
    sw ark_secp384r1::Config, "curves/secp384r1 (SW)";
    sw ark_secq256k1::Config, "curves/secq256k1 (SW)";
    sw ark_vesta::VestaConfig, "curves/vesta (SW)";
    glv ark_vesta::VestaConfig, "curves/vesta (GLV)";
    ell2 ark_ed_on_bls12_381_bandersnatch::BandersnatchConfig, "curves/ed_on_bls12_381_bandersnatch (Elligator2 constants)";
    swuwb ark_bls12_377::g1::Config, "curves/bls12_377 g1 (SWU/WB constants)";
    swuwb ark_bls12_377::g2::Config, "curves/bls12_377 g2 (SWU/WB constants)";
    swuwb ark_bls12_381::g1::Config, "curves/bls12_381 g1 (SWU/WB constants)";
    swuwb ark_bls12_381::g2::Config, "curves/bls12_381 g2 (SWU/WB constants)";
    swuwb ark_test_curves::bls12_381::g1::Config, "test-curves/bls12_381 g1 (SWU/WB constants)";
    swuwb ark_test_curves::bls12_381::g2::Config, "test-curves/bls12_381 g2 (SWU/WB constants)";
    sw ark_test_curves::bls12_381::g1::Config, "test-curves/bls12_381 g1 (SW)";
    glv ark_test_curves::bls12_381::g1::Config, "test-curves/bls12_381 g1 (GLV)";
    sw ark_test_curves::bls12_381::g2::Config, "test-curves/bls12_381 g2 (SW)";
    sw ark_test_curves::bn384_small_two_adicity::g1::Config, "test-curves/bn384_small_two_adicity g1 (SW)";
    te ark_test_curves::ed_on_bls12_381::EdwardsConfig, "test-curves/ed_on_bls12_381 (TE)";
    sw ark_test_curves::mnt4_753::g1::Config, "test-curves/mnt4_753 g1 (SW)";
    sw ark_test_curves::secp256k1::Config, "test-curves/secp256k1 g1 (SW)";
}
