//! C13 (sampled stand-in; not a proof) on the shipped hash-to-curve configurations.
//!   * expand_message_xmd / hash_to_field: compared with an independent implementation of RFC 9380 section 5 written here
//!     (self-tested against the RFC's published vector K.1 #1), for SHA-256 and SHA-512, tags of length 0..300 (oversize
//!     tags included), messages of several lengths, prime and extension fields with L = 48, 64, ...
//!   * maps: simplified SWU, Wahby-Boneh (SWU + isogeny), Elligator 2: for u = 0, +-1, the exceptional inputs of each map and
//!     seeded random u, the image is on the target curve and sgn0(y) = sgn0(u) on the SWU curve; the isogeny sends points of
//!     the isogenous curve to the target curve and is additive; check_parameters() accepts every shipped parameter set
//!   * hash: deterministic, on the curve, in the prime-order subgroup.
use crate::curves::naive;
use crate::fields::modulus;
use crate::{Rng, Tally};
use ark_ec::{
    hashing::{
        curve_maps::{
            elligator2::{Elligator2Config, Elligator2Map},
            swu::{SWUConfig, SWUMap},
            wb::{WBConfig, WBMap},
        },
        map_to_curve_hasher::{MapToCurve, MapToCurveBasedHasher},
        HashToCurve,
    },
    short_weierstrass::{Affine, Projective, SWCurveConfig},
    twisted_edwards::{self as te, TECurveConfig},
    AdditiveGroup, AffineRepr, CurveGroup,
};
use ark_ff::{
    field_hashers::{DefaultFieldHasher, HashToField},
    Field, One, PrimeField, UniformRand, Zero,
};
use num_bigint::BigUint;
use sha2::{Digest, Sha256, Sha512};

// ---------------------------------------------------------------- independent RFC 9380 section 5.3.1 / 5.2
fn xmd<H: Digest>(msg: &[u8], dst: &[u8], n: usize, s_in_bytes: usize) -> Vec<u8> {
    let b_in_bytes = <H as Digest>::output_size();
    let dst: Vec<u8> = if dst.len() > 255 { let mut h = H::new(); h.update(b"H2C-OVERSIZE-DST-"); h.update(dst); h.finalize().to_vec() } else { dst.to_vec() };
    let ell = (n + b_in_bytes - 1) / b_in_bytes;
    assert!(ell <= 255 && n <= 65535);
    let mut dst_prime = dst.clone();
    dst_prime.push(dst.len() as u8);
    let mut h = H::new();
    h.update(vec![0u8; s_in_bytes]);
    h.update(msg);
    h.update((n as u16).to_be_bytes());
    h.update([0u8]);
    h.update(&dst_prime);
    let b0 = h.finalize().to_vec();
    let mut h = H::new();
    h.update(&b0);
    h.update([1u8]);
    h.update(&dst_prime);
    let mut bi = h.finalize().to_vec();
    let mut out = bi.clone();
    for i in 2..=ell {
        let x: Vec<u8> = b0.iter().zip(&bi).map(|(a, b)| a ^ b).collect();
        let mut h = H::new();
        h.update(&x);
        h.update([i as u8]);
        h.update(&dst_prime);
        bi = h.finalize().to_vec();
        out.extend_from_slice(&bi);
    }
    out.truncate(n);
    out
}

/// hash_to_field of RFC 9380 section 5.2 with k = 128: `count` elements of F, coordinates reduced big-endian
fn h2f_oracle<F: Field, H: Digest>(msg: &[u8], dst: &[u8], count: usize, s_in_bytes: usize) -> Vec<F> {
    let p = modulus::<F::BasePrimeField>();
    let l = (F::BasePrimeField::MODULUS_BIT_SIZE as usize + 128 + 7) / 8;
    let m = F::extension_degree() as usize;
    let bytes = xmd::<H>(msg, dst, count * m * l, s_in_bytes);
    (0..count).map(|i| {
        F::from_base_prime_field_elems((0..m).map(|j| {
            let off = l * (j + i * m);
            let v = BigUint::from_bytes_be(&bytes[off..off + l]) % &p;
            F::BasePrimeField::from_le_bytes_mod_order(&v.to_bytes_le())
        })).unwrap()
    }).collect()
}

fn h2f<F: Field>(t: &mut Tally, name: &str, rng: &mut Rng) {
    let long_dst: Vec<u8> = (0..300).map(|i| (i * 7 + 1) as u8).collect();
    let dsts: Vec<Vec<u8>> = vec![b"QUUX-V01-CS02-with-BLS12381G1_XMD:SHA-256_SSWU_RO_".to_vec(), vec![1], vec![], long_dst[..255].to_vec(), long_dst[..256].to_vec(), long_dst.clone()];
    let mut msgs: Vec<Vec<u8>> = vec![vec![], b"abc".to_vec(), b"abcdef0123456789".to_vec(), vec![0x61; 133], vec![0u8; 64]];
    msgs.push((0..(rng.next() % 200)).map(|_| rng.next() as u8).collect());
    for dst in &dsts {
        for msg in &msgs {
            let a: [F; 2] = <DefaultFieldHasher<Sha256, 128> as HashToField<F>>::new(dst).hash_to_field::<2>(msg);
            let e = h2f_oracle::<F, Sha256>(msg, dst, 2, 64);
            t.check(a.to_vec() == e, || format!("{name}: hash_to_field (XMD:SHA-256, k = 128) differs from RFC 9380"));
            let a: [F; 2] = <DefaultFieldHasher<Sha512, 128> as HashToField<F>>::new(dst).hash_to_field::<2>(msg);
            let e = h2f_oracle::<F, Sha512>(msg, dst, 2, 128);
            t.check(a.to_vec() == e, || format!("{name}: hash_to_field (XMD:SHA-512, k = 128) differs from RFC 9380"));
            let one: [F; 1] = <DefaultFieldHasher<Sha256, 128> as HashToField<F>>::new(dst).hash_to_field::<1>(msg);
            t.check(one.to_vec() == h2f_oracle::<F, Sha256>(msg, dst, 1, 64), || format!("{name}: hash_to_field count = 1 (XMD:SHA-256)"));
        }
    }
}

// ---------------------------------------------------------------- maps
fn sgn0<F: Field>(x: &F) -> bool {
    // RFC 9380 section 4.1: parity of the first non-zero coordinate (little-endian order of coordinates)
    for c in x.to_base_prime_field_elements() {
        if !c.is_zero() { return c.into_bigint().as_ref()[0] & 1 == 1; }
    }
    false
}
fn sw_on<C: SWCurveConfig>(p: &Affine<C>) -> bool { p.infinity || p.y.square() == p.x.square() * p.x + C::COEFF_A * p.x + C::COEFF_B }

fn swu_inputs<C: SWUConfig>(rng: &mut Rng, n: usize) -> Vec<C::BaseField> {
    let mut v = vec![C::BaseField::zero(), C::BaseField::one(), -C::BaseField::one(), C::ZETA, C::BaseField::one().double()];
    // exceptional inputs: Z^2 u^4 + Z u^2 = 0, i.e. u = 0 or u^2 = -1/Z
    if let Some(zi) = C::ZETA.inverse() { if let Some(u) = (-zi).sqrt() { v.push(u); v.push(-u); } }
    let mut r = rng.std();
    for _ in 0..n { v.push(C::BaseField::rand(&mut r)); }
    v
}

pub fn swu<C: SWUConfig>(t: &mut Tally, name: &str, rng: &mut Rng) {
    t.check(<SWUMap<C> as MapToCurve<Projective<C>>>::check_parameters().is_ok(), || format!("{name}: SWU check_parameters rejects the shipped parameters"));
    t.check(C::ZETA.legendre().is_qnr(), || format!("{name}: ZETA is a square"));
    t.check(!C::COEFF_A.is_zero() && !C::COEFF_B.is_zero(), || format!("{name}: SWU needs a, b != 0"));
    for u in swu_inputs::<C>(rng, 24) {
        match t.no_panic(|| <SWUMap<C> as MapToCurve<Projective<C>>>::map_to_curve(u), || format!("{name}: SWU map_to_curve({u}) panics")) {
            Some(Ok(p)) => {
                t.check(sw_on::<C>(&p) && !p.infinity, || format!("{name}: SWU map_to_curve({u}) is not on the curve"));
                t.check(sgn0(&p.y) == sgn0(&u), || format!("{name}: SWU map_to_curve({u}): sgn0(y) != sgn0(u)"));
            },
            Some(Err(e)) => t.check(false, || format!("{name}: SWU map_to_curve({u}) = Err({e})")),
            None => {},
        }
    }
}

/// the rational map given by the shipped coefficient tables (lowest degree first), evaluated here by Horner's rule
fn iso_apply<C: WBConfig>(p: Affine<C::IsogenousCurve>) -> Option<Affine<C>> {
    let (x, y) = match p.xy() { Some(v) => v, None => return Some(Affine::identity()) };
    let ev = |c: &[C::BaseField]| c.iter().rev().fold(C::BaseField::zero(), |acc, k| acc * x + k);
    let m = &C::ISOGENY_MAP;
    let (xd, yd) = (ev(m.x_map_denominator).inverse()?, ev(m.y_map_denominator).inverse()?);
    Some(Affine::new_unchecked(ev(m.x_map_numerator) * xd, y * ev(m.y_map_numerator) * yd))
}

pub fn wb<C: WBConfig>(t: &mut Tally, name: &str, rng: &mut Rng) {
    t.check(<WBMap<C> as MapToCurve<Projective<C>>>::check_parameters().is_ok(), || format!("{name}: WB check_parameters rejects the shipped parameters"));
    swu::<C::IsogenousCurve>(t, &format!("{name} [isogenous curve]"), rng);
    for u in swu_inputs::<C::IsogenousCurve>(rng, 24) {
        match t.no_panic(|| <WBMap<C> as MapToCurve<Projective<C>>>::map_to_curve(u), || format!("{name}: WB map_to_curve({u}) panics")) {
            Some(Ok(p)) => {
                t.check(sw_on::<C>(&p), || format!("{name}: WB map_to_curve({u}) is not on the target curve"));
                let via = <SWUMap<C::IsogenousCurve> as MapToCurve<Projective<C::IsogenousCurve>>>::map_to_curve(u).ok().and_then(iso_apply::<C>);
                t.check(via == Some(p), || format!("{name}: WB map_to_curve({u}) != isogeny(SWU(u))"));
            },
            Some(Err(e)) => t.check(false, || format!("{name}: WB map_to_curve({u}) = Err({e})")),
            None => {},
        }
    }
    // the isogeny: points of E' go to points of E, additively, identity to identity
    let mut r = rng.std();
    let mut pts: Vec<Affine<C::IsogenousCurve>> = vec![];
    while pts.len() < 6 {
        if let Some(p) = Affine::<C::IsogenousCurve>::get_point_from_x_unchecked(<C::IsogenousCurve as ark_ec::CurveConfig>::BaseField::rand(&mut r), pts.len() % 2 == 0) { pts.push(p); }
    }
    let img: Vec<Option<Affine<C>>> = pts.iter().map(|p| iso_apply::<C>(*p)).collect();
    for (p, q) in pts.iter().zip(&img) {
        t.check(matches!(q, Some(q) if sw_on::<C>(q)), || format!("{name}: isogeny image of {p} is not on the target curve"));
    }
    for i in 0..pts.len() {
        let j = (i + 1) % pts.len();
        if let (Some(a), Some(b)) = (img[i], img[j]) {
            let s = (pts[i].into_group() + pts[j]).into_affine();
            t.check(iso_apply::<C>(s).map(|x| x.into_group()) == Some(a.into_group() + b), || format!("{name}: isogeny is not additive"));
            let d = pts[i].into_group().double().into_affine();
            t.check(iso_apply::<C>(d).map(|x| x.into_group()) == Some(a.into_group().double()), || format!("{name}: isogeny(2P) != 2 isogeny(P)"));
        }
    }
    hash::<Projective<C>, WBMap<C>>(t, name, rng);
}

// ---- the kernel of the isogeny: RFC 9380 section 6.6.3 -- where a denominator of the rational map vanishes the image is the
//      identity.  Kernel abscissae = roots of x_map_denominator in the base field (found by gcd with x^q - x and equal-degree
//      splitting); each is pulled back through the simplified SWU map by solving its defining quadratics for u.
type Poly<F> = Vec<F>;
fn ptrim<F: Field>(mut a: Poly<F>) -> Poly<F> { while a.last().map_or(false, |c| c.is_zero()) { a.pop(); } a }
fn prem<F: Field>(a: &Poly<F>, m: &Poly<F>) -> Poly<F> {
    let mut r = ptrim(a.clone());
    let dm = m.len() - 1;
    let lead_inv = m[dm].inverse().unwrap();
    while r.len() > dm {
        let k = r.len() - 1 - dm;
        let c = r[r.len() - 1] * lead_inv;
        for i in 0..=dm { let v = m[i] * c; r[k + i] -= v; }
        r = ptrim(r);
    }
    r
}
fn pmulmod<F: Field>(a: &Poly<F>, b: &Poly<F>, m: &Poly<F>) -> Poly<F> {
    if a.is_empty() || b.is_empty() { return vec![]; }
    let mut r = vec![F::zero(); a.len() + b.len() - 1];
    for (i, x) in a.iter().enumerate() { for (j, y) in b.iter().enumerate() { r[i + j] += *x * y; } }
    prem(&r, m)
}
fn ppowmod<F: Field>(base: &Poly<F>, e: &num_bigint::BigUint, m: &Poly<F>) -> Poly<F> {
    let mut acc: Poly<F> = prem(&vec![F::one()], m);
    for i in (0..e.bits()).rev() {
        acc = pmulmod(&acc, &acc, m);
        if e.bit(i) { acc = pmulmod(&acc, base, m); }
    }
    acc
}
fn pgcd<F: Field>(a: &Poly<F>, b: &Poly<F>) -> Poly<F> {
    let (mut a, mut b) = (ptrim(a.clone()), ptrim(b.clone()));
    while !b.is_empty() { let r = prem(&a, &b); a = b; b = r; }
    a
}
fn pdiv_exact<F: Field>(a: &Poly<F>, b: &Poly<F>) -> Poly<F> {
    let mut r = ptrim(a.clone());
    let db = b.len() - 1;
    let li = b[db].inverse().unwrap();
    let mut q = vec![F::zero(); r.len().saturating_sub(db)];
    while r.len() > db {
        let k = r.len() - 1 - db;
        let c = r[r.len() - 1] * li;
        q[k] = c;
        for i in 0..=db { let v = b[i] * c; r[k + i] -= v; }
        r = ptrim(r);
    }
    q
}
/// all roots in F of a non-zero polynomial
fn proots<F: Field>(f: &Poly<F>, rng: &mut Rng) -> Vec<F> {
    let f = ptrim(f.clone());
    if f.len() <= 1 { return vec![]; }
    let q = crate::fields::field_order::<F>();
    let x: Poly<F> = vec![F::zero(), F::one()];
    let mut xq = ppowmod(&x, &q, &f);
    while xq.len() < 2 { xq.push(F::zero()); }
    xq[1] -= F::one();
    let g = pgcd(&f, &ptrim(xq));           // product of the distinct linear factors
    let mut out = vec![];
    let mut stack = vec![g];
    let half = (&q - 1u8) >> 1u32;
    let mut r = rng.std();
    while let Some(g) = stack.pop() {
        let d = g.len().saturating_sub(1);
        if d == 0 { continue; }
        if d == 1 { out.push(-g[0] * g[1].inverse().unwrap()); continue; }
        let a = F::rand(&mut r);
        let mut h = ppowmod(&vec![a, F::one()], &half, &g);
        if h.is_empty() { h.push(F::zero()); }
        h[0] -= F::one();
        let h = pgcd(&g, &ptrim(h));
        let dh = h.len().saturating_sub(1);
        if dh == 0 || dh == d { stack.push(g); continue; }
        stack.push(pdiv_exact(&g, &h));
        stack.push(h);
    }
    out
}
/// field elements u with x(SWU(u)) = x, from the two defining relations x1(t) = x and x2(t) = x with t = Z u^2
fn swu_preimages<C: SWUConfig>(x: C::BaseField) -> Vec<C::BaseField> {
    let (a, b, z) = (C::COEFF_A, C::COEFF_B, C::ZETA);
    let one = C::BaseField::one();
    let two_inv = (one + one).inverse().unwrap();
    let mut ts = vec![];
    let axb = a * x * b.inverse().unwrap();
    // x1 = (-B/A)(1 + 1/(t^2 + t))  <=>  t^2 + t = 1 / (-(A x)/B - 1)
    if let Some(c) = (-axb - one).inverse() {
        if let Some(s) = (one + c + c + c + c).sqrt() { ts.push((-one + s) * two_inv); ts.push((-one - s) * two_inv); }
    }
    // x2 = t x1 = (-B/A)(t^2 + t + 1)/(t + 1)  <=>  t^2 + (1 + A x / B) t + (1 + A x / B) = 0
    let k = one + axb;
    if let Some(s) = (k.square() - (k + k + k + k)).sqrt() { ts.push((-k + s) * two_inv); ts.push((-k - s) * two_inv); }
    let zi = z.inverse().unwrap();
    let mut us = vec![];
    for t in ts { if let Some(u) = (t * zi).sqrt() { us.push(u); us.push(-u); } }
    us.into_iter().filter(|u| matches!(<SWUMap<C> as MapToCurve<Projective<C>>>::map_to_curve(*u), Ok(p) if p.x == x)).collect()
}
pub fn wb_kernel<C: WBConfig>(t: &mut Tally, name: &str, rng: &mut Rng) {
    let m = &C::ISOGENY_MAP;
    let mut xs = proots::<C::BaseField>(&m.x_map_denominator.to_vec(), rng);
    xs.extend(proots::<C::BaseField>(&m.y_map_denominator.to_vec(), rng));
    xs.sort_by_key(|x| format!("{x}")); xs.dedup();
    let mut reached = 0;
    for x in &xs {
        for u in swu_preimages::<C::IsogenousCurve>(*x) {
            reached += 1;
            match t.no_panic(|| <WBMap<C> as MapToCurve<Projective<C>>>::map_to_curve(u), || format!("{name}: WB map_to_curve({u}) (SWU image in the isogeny kernel) panics")) {
                Some(Ok(p)) => {
                    t.check(sw_on::<C>(&p), || format!("{name}: WB map_to_curve({u}) = {p} is not on the target curve (SWU(u) lies in the kernel of the isogeny, x = {x})"));
                    t.check(p.infinity, || format!("{name}: WB map_to_curve({u}) is not the identity although SWU(u) lies in the kernel of the isogeny (RFC 9380 6.6.3)"));
                },
                Some(Err(e)) => t.check(false, || format!("{name}: WB map_to_curve({u}) = Err({e}) on a kernel point")),
                None => {},
            }
        }
    }
    t.cases += 1;
    println!("NOTE {name}: {} rational kernel abscissae, {} preimages under SWU exercised", xs.len(), reached);
}

/// RFC 9380 section 6.7.1 (Elligator 2 on the Montgomery curve K t^2 = s^3 + J s^2 + s, J and K taken from the curve's
/// Montgomery coefficients, not from the precomputed quotients) followed by the rational map of appendix D.1
fn ell2_oracle<C: Elligator2Config>(u: C::BaseField) -> (C::BaseField, C::BaseField) {
    use ark_ec::twisted_edwards::MontCurveConfig;
    let one = C::BaseField::one();
    let (j, k) = (<C as MontCurveConfig>::COEFF_A, <C as MontCurveConfig>::COEFF_B);
    let kinv = k.inverse().unwrap();
    let (jk, k2inv) = (j * kinv, kinv.square());
    let q_minus_1_half = (crate::fields::field_order::<C::BaseField>() - 1u8) >> 1u32;
    let is_square = |x: C::BaseField| x.is_zero() || crate::fields::pow_big(&x, &q_minus_1_half).is_one();
    let inv0 = |x: C::BaseField| x.inverse().unwrap_or(C::BaseField::zero());
    let mut x1 = -jk * inv0(one + C::Z * u.square());
    if x1.is_zero() { x1 = -jk; }
    let g = |x: C::BaseField| x.square() * x + jk * x.square() + x * k2inv;
    let gx1 = g(x1);
    let x2 = -x1 - jk;
    let gx2 = g(x2);
    let (x, mut y) = if is_square(gx1) { (x1, gx1.sqrt().unwrap()) } else { (x2, gx2.sqrt().unwrap()) };
    // sgn0(y) == 1 when gx1 is a square, 0 otherwise
    if sgn0(&y) != is_square(gx1) { y = -y; }
    let (s, tt) = (x * k, y * k);
    // appendix D.1: (v, w) = (s / t, (s - 1) / (s + 1)), exceptional points to the identity (0, 1)
    let den = (s + one) * tt;
    if den.is_zero() { (C::BaseField::zero(), one) } else { (s * tt.inverse().unwrap(), (s - one) * (s + one).inverse().unwrap()) }
}

pub fn elligator<C: Elligator2Config>(t: &mut Tally, name: &str, rng: &mut Rng) {
    elligator_map::<C>(t, name, rng);
    hash::<te::Projective<C>, Elligator2Map<C>>(t, name, rng);
}
/// the map alone (the full-hash checks demand distinct images of distinct messages, which a 29-point toy group cannot give)
pub fn elligator_map<C: Elligator2Config>(t: &mut Tally, name: &str, rng: &mut Rng) {
    t.check(<Elligator2Map<C> as MapToCurve<te::Projective<C>>>::check_parameters().is_ok(), || format!("{name}: Elligator2 check_parameters rejects the shipped parameters"));
    t.check(C::Z.legendre().is_qnr(), || format!("{name}: Elligator2 Z is a square"));
    let mut v = vec![C::BaseField::zero(), C::BaseField::one(), -C::BaseField::one(), C::Z];
    // exceptional input: 1 + Z u^2 = 0
    if let Some(zi) = C::Z.inverse() { if let Some(u) = (-zi).sqrt() { v.push(u); v.push(-u); } }
    let mut r = rng.std();
    for _ in 0..24 { v.push(C::BaseField::rand(&mut r)); }
    for u in v {
        match t.no_panic(|| <Elligator2Map<C> as MapToCurve<te::Projective<C>>>::map_to_curve(u), || format!("{name}: Elligator2 map_to_curve({u}) panics")) {
            Some(Ok(p)) => {
                t.check(<C as TECurveConfig>::COEFF_A * p.x.square() + p.y.square() == C::BaseField::one() + <C as TECurveConfig>::COEFF_D * p.x.square() * p.y.square(), || format!("{name}: Elligator2 map_to_curve({u}) is not on the curve"));
                t.check((p.x, p.y) == ell2_oracle::<C>(u), || format!("{name}: Elligator2 map_to_curve({u}) differs from RFC 9380 6.7.1 + the rational map of appendix D.1 (root / sign choice)"));
            },
            Some(Err(e)) => t.check(false, || format!("{name}: Elligator2 map_to_curve({u}) = Err({e})")),
            None => {},
        }
    }
}

// ---- a toy Elligator2 configuration on which the exceptional inputs 1 + Z u^2 = 0 EXIST (q = 107 = 3 mod 4, Z = -1, u = +-1;
//      on the shipped bandersnatch curve -1/Z is a non-square and that branch is unreachable): x^2 + y^2 = 1 + 15 x^2 y^2 over
//      F_107, 116 = 4 * 29 points, Montgomery form 15 t^2 = s^3 + 13 s^2 + s (parameters recomputed by brute force in Python).
//      The whole field is mapped and compared with the RFC 9380 oracle.
pub mod toy_ell2 {
    use ark_ec::{hashing::curve_maps::elligator2::Elligator2Config, twisted_edwards::{Affine, MontCurveConfig, TECurveConfig}, CurveConfig};
    use ark_ff::{fields::Fp64, MontBackend, MontFp};
    #[derive(ark_ff::MontConfig)]
    #[modulus = "107"]
    #[generator = "2"]
    pub struct F107Config;
    pub type F107 = Fp64<MontBackend<F107Config, 1>>;
    #[derive(ark_ff::MontConfig)]
    #[modulus = "29"]
    #[generator = "2"]
    pub struct F29Config;
    pub type F29 = Fp64<MontBackend<F29Config, 1>>;
    pub struct Toy;
    impl CurveConfig for Toy {
        const COFACTOR: &'static [u64] = &[4];
        const COFACTOR_INV: F29 = MontFp!("22");
        type BaseField = F107;
        type ScalarField = F29;
    }
    impl TECurveConfig for Toy {
        const COEFF_A: F107 = MontFp!("1");
        const COEFF_D: F107 = MontFp!("15");
        const GENERATOR: Affine<Self> = Affine::new_unchecked(MontFp!("60"), MontFp!("63"));
        type MontCurveConfig = Self;
    }
    impl MontCurveConfig for Toy {
        const COEFF_A: F107 = MontFp!("13");
        const COEFF_B: F107 = MontFp!("15");
        type TECurveConfig = Self;
    }
    impl Elligator2Config for Toy {
        const Z: F107 = MontFp!("-1");
        const ONE_OVER_COEFF_B_SQUARE: F107 = MontFp!("39");
        const COEFF_A_OVER_COEFF_B: F107 = MontFp!("8");
    }
}
fn elligator_toy(t: &mut Tally, name: &str, rng: &mut Rng) {
    use toy_ell2::{Toy, F107};
    elligator_map::<Toy>(t, name, rng);
    let mut exceptional = 0;
    for k in 0..107u64 {
        let u = F107::from(k);
        if (F107::one() + <Toy as Elligator2Config>::Z * u.square()).is_zero() { exceptional += 1; }
        match t.no_panic(|| <Elligator2Map<Toy> as MapToCurve<te::Projective<Toy>>>::map_to_curve(u), || format!("{name}: Elligator2 map_to_curve({u}) panics")) {
            Some(Ok(p)) => t.check((p.x, p.y) == ell2_oracle::<Toy>(u), || format!("{name}: Elligator2 map_to_curve({u}) differs from RFC 9380 6.7.1 + appendix D.1")),
            Some(Err(e)) => t.check(false, || format!("{name}: Elligator2 map_to_curve({u}) = Err({e})")),
            None => {},
        }
    }
    t.check(exceptional == 2, || format!("{name}: expected two exceptional inputs, found {exceptional} (vacuous)"));
}

fn hash<G: CurveGroup, M: MapToCurve<G>>(t: &mut Tally, name: &str, rng: &mut Rng) where G::ScalarField: PrimeField {
    let r = modulus::<G::ScalarField>();
    let dst = b"QUUX-V01-CS02-verif";
    let h = match MapToCurveBasedHasher::<G, DefaultFieldHasher<Sha256, 128>, M>::new(dst) { Ok(h) => h, Err(e) => { t.check(false, || format!("{name}: hasher construction failed: {e}")); return } };
    let mut seen: Vec<G::Affine> = vec![];
    let mut msgs: Vec<Vec<u8>> = vec![vec![], b"abc".to_vec(), vec![0u8; 100]];
    for i in 0..5u8 { let mut m = vec![0xF0 + i]; m.extend((0..(rng.next() % 64)).map(|_| rng.next() as u8)); msgs.push(m); } // pairwise distinct by construction
    for m in &msgs {
        match t.no_panic(|| h.hash(m), || format!("{name}: hash of a {}-byte message panics", m.len())) {
            Some(Ok(p)) => {
                t.check(naive(&p.into_group(), &r).is_zero(), || format!("{name}: hash is outside the prime-order subgroup"));
                t.check(h.hash(m).ok() == Some(p), || format!("{name}: hash is not deterministic"));
                seen.push(p);
            },
            Some(Err(e)) => t.check(false, || format!("{name}: hash = Err({e})")),
            None => {},
        }
    }
    t.check(seen.iter().enumerate().all(|(i, p)| seen[..i].iter().all(|q| q != p)), || format!("{name}: distinct messages hash to the same point: {:?}", seen.iter().map(|p| format!("{p}")).collect::<Vec<_>>()));
}

fn oracle_selftest(t: &mut Tally) {
    // RFC 9380 appendix K.1, first vector: msg = "", len_in_bytes = 0x20
    let got = xmd::<Sha256>(b"", b"QUUX-V01-CS02-with-expander-SHA256-128", 0x20, 64);
    let hex: String = got.iter().map(|b| format!("{b:02x}")).collect();
    t.check(hex == "68a985b87eb6b46952128911f2a4412bbc302a9d759667f87f7a21d803f07235", || format!("oracle self-test: expand_message_xmd vector K.1 #1 gives {hex}"));
}

pub const INVENTORY: &[&str] = &[
    "wb curves/bls12_377 g1", "wb curves/bls12_377 g2", "wb curves/bls12_381 g1", "wb curves/bls12_381 g2",
    "wb test-curves/bls12_381 g1", "wb test-curves/bls12_381 g2", "elligator2 curves/ed_on_bls12_381_bandersnatch",
];

pub fn all(t: &mut Tally, rng: &mut Rng) {
    oracle_selftest(t);
    use crate::curves::guard;
    guard(t, "hash_to_field bls12_381 Fq (L = 64)", rng, h2f::<ark_bls12_381::Fq>);
    guard(t, "hash_to_field bls12_381 Fq2 (L = 64, m = 2)", rng, h2f::<ark_bls12_381::Fq2>);
    guard(t, "hash_to_field bls12_381 Fr (L = 48, bandersnatch base field)", rng, h2f::<ark_bls12_381::Fr>);
    guard(t, "hash_to_field bls12_377 Fq (L = 64)", rng, h2f::<ark_bls12_377::Fq>);
    guard(t, "hash_to_field secp256k1 Fq (L = 48)", rng, h2f::<ark_secp256k1::Fq>);
    guard(t, "hash_to_field bw6_761 Fq (L = 112)", rng, h2f::<ark_bw6_761::Fq>);
    guard(t, "curves/bls12_377 g1", rng, wb::<ark_bls12_377::g1::Config>);
    guard(t, "curves/bls12_377 g2", rng, wb::<ark_bls12_377::g2::Config>);
    guard(t, "curves/bls12_381 g1", rng, wb::<ark_bls12_381::g1::Config>);
    guard(t, "curves/bls12_381 g2", rng, wb::<ark_bls12_381::g2::Config>);
    guard(t, "test-curves/bls12_381 g1", rng, wb::<ark_test_curves::bls12_381::g1::Config>);
    guard(t, "test-curves/bls12_381 g2", rng, wb::<ark_test_curves::bls12_381::g2::Config>);
    guard(t, "curves/bls12_377 g1 [isogeny kernel]", rng, wb_kernel::<ark_bls12_377::g1::Config>);
    guard(t, "curves/bls12_377 g2 [isogeny kernel]", rng, wb_kernel::<ark_bls12_377::g2::Config>);
    guard(t, "curves/bls12_381 g1 [isogeny kernel]", rng, wb_kernel::<ark_bls12_381::g1::Config>);
    guard(t, "curves/bls12_381 g2 [isogeny kernel]", rng, wb_kernel::<ark_bls12_381::g2::Config>);
    guard(t, "test-curves/bls12_381 g1 [isogeny kernel]", rng, wb_kernel::<ark_test_curves::bls12_381::g1::Config>);
    guard(t, "test-curves/bls12_381 g2 [isogeny kernel]", rng, wb_kernel::<ark_test_curves::bls12_381::g2::Config>);
    guard(t, "curves/ed_on_bls12_381_bandersnatch", rng, elligator::<ark_ed_on_bls12_381_bandersnatch::BandersnatchConfig>);
    guard(t, "toy Elligator2 curve over F_107 (Z = -1: exceptional inputs exist)", rng, elligator_toy);
}
