//! C06 on every shipped pairing (sampled stand-in; not a proof): bilinearity against the naive power in the target field,
//! additivity in each argument, non-degeneracy on the generators, identity pairs, multi-pairings of every short length with
//! identity entries at every position, prepared vs unprepared inputs, Miller loop + final exponentiation = pairing, order of
//! the output divides r.  Also the target group as a PrimeGroup (C04: mul_bigint / mul_bits_be / Mul<Fr> agree with repeated
//! addition).
use crate::curves::naive;
use crate::fields::{modulus, pow_big, to_big};
use crate::{big_to_limbs, limbs_to_big, Rng, Tally};
use ark_ec::{
    pairing::{Pairing, PairingOutput},
    AdditiveGroup, CurveGroup, PrimeGroup,
};
use ark_ff::{Field, One, PrimeField, UniformRand, Zero};
use num_bigint::BigUint;
use num_traits::One as _;

fn fr<F: PrimeField>(k: &BigUint) -> F { F::from_le_bytes_mod_order(&k.to_bytes_le()) }

pub fn pairing<P: Pairing>(t: &mut Tally, name: &str, rng: &mut Rng, samples: usize) {
    let r = modulus::<P::ScalarField>();
    let (g1, g2) = (P::G1::generator(), P::G2::generator());
    let e = P::pairing(g1, g2);
    t.check(!e.is_zero() && !e.0.is_one(), || format!("{name}: e(g1, g2) is the identity"));
    t.check(pow_big(&e.0, &r).is_one(), || format!("{name}: e(g1, g2)^r != 1"));
    t.check(PairingOutput::<P>::generator() == e, || format!("{name}: PairingOutput::generator() != e(g1, g2)"));
    // identity pairs
    let (z1, z2) = (P::G1::zero(), P::G2::zero());
    for (which, ok) in [("G1", t.no_panic(|| P::pairing(z1, g2).is_zero(), || format!("{name}: pairing with an identity argument (G1 identity) panics"))),
                        ("G2", t.no_panic(|| P::pairing(g1, z2).is_zero(), || format!("{name}: pairing with an identity argument (G2 identity) panics"))),
                        ("both", t.no_panic(|| P::pairing(z1, z2).is_zero(), || format!("{name}: pairing with an identity argument (both identities) panics")))] {
        if let Some(ok) = ok { t.check(ok, || format!("{name}: pairing with an identity argument ({which}) is not the identity")); }
    }
    let mut rr = rng.std();
    let mut scal: Vec<BigUint> = vec![0u8.into(), 1u8.into(), 2u8.into(), &r - 1u8];
    for _ in 0..samples { scal.push(to_big(&P::ScalarField::rand(&mut rr))); }
    // every pairing below goes through `pair`: a panic is reported once per kind and the remaining checks still run
    fn pair<P: Pairing>(t: &mut Tally, name: &str, p: P::G1, q: P::G2) -> Option<PairingOutput<P>> {
        let what = if p.is_zero() || q.is_zero() { "pairing with an identity argument panics" } else { "pairing panics" };
        t.no_panic(|| P::pairing(p, q), || format!("{name}: {what}"))
    }
    for (i, a) in scal.iter().enumerate() {
        let b = &scal[(i * 7 + 3) % scal.len()];
        let (pa, qb) = (naive(&g1, a), naive(&g2, b));
        let ab = (a * b) % &r;
        let lhs = match pair::<P>(t, name, pa, qb) { Some(x) => x, None => continue };
        t.check(lhs.0 == pow_big(&e.0, &ab), || format!("{name}: e(aP, bQ) != e(P, Q)^(ab) for a = {a}, b = {b}"));
        t.check(pow_big(&lhs.0, &r).is_one(), || format!("{name}: output order does not divide r"));
        // scalar-field action on the target group
        t.check(e * fr::<P::ScalarField>(&ab) == lhs, || format!("{name}: PairingOutput * Fr(ab) != e(aP, bQ)"));
        // additivity in each argument
        let c = &scal[(i * 5 + 1) % scal.len()];
        let (pc, qc) = (naive(&g1, c), naive(&g2, c));
        if let (Some(x), Some(y)) = (pair::<P>(t, name, pa + pc, qb), pair::<P>(t, name, pc, qb)) {
            t.check(x == lhs + y, || format!("{name}: e(P + P', Q) != e(P, Q) e(P', Q)"));
        }
        if let (Some(x), Some(y)) = (pair::<P>(t, name, pa, qb + qc), pair::<P>(t, name, pa, qc)) {
            t.check(x == lhs + y, || format!("{name}: e(P, Q + Q') != e(P, Q) e(P, Q')"));
        }
        // prepared vs unprepared, affine vs projective, Miller loop + final exponentiation
        let (paa, qba) = (pa.into_affine(), qb.into_affine());
        let prep = P::pairing(P::G1Prepared::from(paa), P::G2Prepared::from(qba));
        let prep2 = P::pairing(P::G1Prepared::from(pa), P::G2Prepared::from(qb));
        t.check(prep == lhs && prep2 == lhs && P::pairing(paa, qba) == lhs, || format!("{name}: prepared and unprepared inputs disagree"));
        let ml = P::miller_loop(paa, qba);
        t.check(P::final_exponentiation(ml) == Some(lhs), || format!("{name}: final_exponentiation(miller_loop) != pairing"));
    }
    // multi-pairings: every length 0..=5 with identity entries at every position, plus 8 and 9 (several 4-pair chunks)
    for len in [0usize, 1, 2, 3, 4, 5, 8, 9] {
        let nz = |i: usize| &scal[1 + i % (scal.len() - 1)]; // non-zero scalars
        let ps: Vec<P::G1> = (0..len).map(|i| naive(&g1, nz(i))).collect();
        let qs: Vec<P::G2> = (0..len).map(|i| naive(&g2, nz(2 * i + 1))).collect();
        // short lists: an identity at every slot; lists spanning several 4-pair chunks: first/last G1 slot, one G2 slot, none
        let slots: Vec<usize> = if len <= 5 { (0..=(2 * len)).collect() } else { vec![0, len - 1, len + 4, 2 * len] };
        for idpos in slots {
            let mut p2 = ps.clone();
            let mut q2 = qs.clone();
            if idpos < len { p2[idpos] = P::G1::zero(); } else if idpos < 2 * len { q2[idpos - len] = P::G2::zero(); }
            // expected value: pairs with an identity contribute the identity (bilinearity), the others their pairing
            let expect = p2.iter().zip(&q2).fold(PairingOutput::<P>::zero(), |acc, (p, q)| if p.is_zero() || q.is_zero() { acc } else { acc + P::pairing(*p, *q) });
            let pa: Vec<P::G1Affine> = p2.iter().map(|p| p.into_affine()).collect();
            let qa: Vec<P::G2Affine> = q2.iter().map(|q| q.into_affine()).collect();
            let what = if idpos < len { "with an identity argument (G1 slot)" } else if idpos < 2 * len { "with an identity argument (G2 slot)" } else { "without identity entries" };
            if let Some(got) = t.no_panic(|| P::multi_pairing(pa.clone(), qa.clone()), || format!("{name}: multi_pairing {what} panics")) {
                t.check(got == expect, || format!("{name}: multi_pairing {what} != product of pairings (first at length {len}, slot {idpos})"));
            }
            if let Some(gp) = t.no_panic(|| P::multi_pairing(pa.iter().map(|p| P::G1Prepared::from(*p)), qa.iter().map(|q| P::G2Prepared::from(*q))), || format!("{name}: multi_pairing on prepared inputs {what} panics")) {
                t.check(gp == expect, || format!("{name}: multi_pairing on prepared inputs {what} != product of pairings (first at length {len}, slot {idpos})"));
            }
        }
    }
}

pub fn target<P: Pairing>(t: &mut Tally, name: &str, rng: &mut Rng) {
    let e = P::pairing(P::G1::generator(), P::G2::generator());
    target_group::<P>(t, name, rng, e);
}

/// the target group as a PrimeGroup: all multiplication entry points agree with repeated addition
fn target_group<P: Pairing>(t: &mut Tally, name: &str, rng: &mut Rng, e: PairingOutput<P>) {
    let r = modulus::<P::ScalarField>();
    let nl = big_to_limbs(&r).len();
    let mut ks: Vec<Vec<u64>> = vec![vec![], vec![0], vec![1], vec![2], vec![6], vec![u64::MAX], vec![0, 1], vec![1, 0, 0], big_to_limbs(&(&r - 1u8)), big_to_limbs(&r), big_to_limbs(&(&r + 1u8)), big_to_limbs(&(BigUint::one() << (64 * nl)))];
    ks.push((0..nl).map(|_| rng.next()).collect());
    for k in &ks {
        let kb = limbs_to_big(k);
        let expect = PairingOutput::<P>(pow_big(&e.0, &kb));
        t.check(naive(&e, &kb) == expect, || format!("{name}: target group: repeated addition != power"));
        t.check(e.mul_bigint(k) == expect, || format!("{name}: PairingOutput::mul_bigint({k:?})"));
        // big-endian bit streams with and without leading zeros
        let bits: Vec<bool> = (0..kb.bits()).rev().map(|i| kb.bit(i)).collect();
        t.check(e.mul_bits_be(bits.iter().cloned()) == expect, || format!("{name}: PairingOutput::mul_bits_be(minimal big-endian bits of {kb})"));
        let mut padded = vec![false; 3];
        padded.extend(bits.iter().cloned());
        t.check(e.mul_bits_be(padded.into_iter()) == expect, || format!("{name}: PairingOutput::mul_bits_be(zero-padded bits of {kb})"));
        let full: Vec<bool> = (0..(64 * k.len())).rev().map(|i| (k[i / 64] >> (i % 64)) & 1 == 1).collect();
        t.check(e.mul_bits_be(full.into_iter()) == expect, || format!("{name}: PairingOutput::mul_bits_be(all limb bits of {k:?})"));
        if kb < r {
            let s = fr::<P::ScalarField>(&kb);
            let mut m = e; m *= s;
            t.check(e * s == expect && m == expect, || format!("{name}: PairingOutput * Fr({kb})"));
        }
    }
    t.check((-e) + e == PairingOutput::<P>::zero() && e.double() == e + e && (e - e).is_zero(), || format!("{name}: target group neg/double/sub"));
}

macro_rules! inventory {
    ($( $path:path, $name:expr, $big:expr; )*) => {
        pub const INVENTORY: &[&str] = &[ $( concat!("pairing ", $name) ),* ];
        pub fn all_target(t: &mut Tally, rng: &mut Rng) {
            $( crate::curves::guard(t, $name, rng, target::<$path>); )*
        }
        pub fn all(t: &mut Tally, rng: &mut Rng, thorough: bool) {
            $( crate::curves::guard(t, $name, rng, if thorough { |t, n, r| pairing::<$path>(t, n, r, 12) } else { |t, n, r| pairing::<$path>(t, n, r, if $big { 2 } else { 4 }) }); )*
        }
    };
}

inventory! {
    ark_bls12_377::Bls12_377, "curves/bls12_377 (BLS12, D-twist)", false;
    ark_bls12_381::Bls12_381, "curves/bls12_381 (BLS12, M-twist)", false;
    ark_bn254::Bn254, "curves/bn254 (BN)", false;
    ark_bw6_761::BW6_761, "curves/bw6_761 (BW6)", true;
    ark_bw6_767::BW6_767, "curves/bw6_767 (BW6)", true;
    ark_cp6_782::CP6_782, "curves/cp6_782 (own Pairing impl)", true;
    ark_mnt4_298::MNT4_298, "curves/mnt4_298 (MNT4)", false;
    ark_mnt4_753::MNT4_753, "curves/mnt4_753 (MNT4)", true;
    ark_mnt6_298::MNT6_298, "curves/mnt6_298 (MNT6)", false;
    ark_mnt6_753::MNT6_753, "curves/mnt6_753 (MNT6)", true;
    ark_test_curves::bls12_381::Bls12_381, "test-curves/bls12_381 (BLS12, M-twist)", false;
}
