//! C16, field part: every shipped prime field and extension tower.
use crate::{big_to_limbs, limbs_to_big, Rng, Tally};
use ark_ff::{
    BigInteger, CubicExtConfig, CubicExtField, FftField, Field, Fp, LegendreSymbol, MontBackend, MontConfig, One, PrimeField, QuadExtConfig, QuadExtField,
    SqrtPrecomputation, UniformRand, Zero,
};
use num_bigint::BigUint;
use num_traits::One as _;

pub fn to_big<F: PrimeField>(x: &F) -> BigUint { BigUint::from_bytes_le(&x.into_bigint().to_bytes_le()) }
pub fn modulus<F: PrimeField>() -> BigUint { BigUint::from_bytes_le(&F::MODULUS.to_bytes_le()) }
pub fn pow_big<F: Field>(x: &F, e: &BigUint) -> F { x.pow(big_to_limbs(e)) }
pub fn field_order<F: Field>() -> BigUint { limbs_to_big(F::characteristic()).pow(F::extension_degree() as u32) }

fn miller_rabin(n: &BigUint) -> bool {
    let one = BigUint::one();
    let two = &one + &one;
    if n < &two { return false; }
    let nm1 = n - &one;
    let s = nm1.trailing_zeros().unwrap_or(0);
    let d = &nm1 >> s;
    'outer: for a in [2u32, 3, 5, 7, 11, 13, 17, 19, 23, 29, 31, 37, 41, 43, 47, 53] {
        let a = BigUint::from(a);
        if &a % n == BigUint::from(0u8) { continue; }
        let mut x = a.modpow(&d, n);
        if x == one || x == nm1 { continue; }
        for _ in 1..s {
            x = (&x * &x) % n;
            if x == nm1 { continue 'outer; }
        }
        return false;
    }
    true
}

/// Montgomery-specific constants, reachable only through the concrete config type
pub trait MontInfo {
    fn limbs() -> usize;
    fn r() -> BigUint;
    fn r2() -> BigUint;
    fn inv() -> u64;
    fn flags() -> (bool, bool, bool);
    fn plus_one_div_four() -> Option<BigUint>;
}
impl<T: MontConfig<N>, const N: usize> MontInfo for Fp<MontBackend<T, N>, N> {
    fn limbs() -> usize { N }
    fn r() -> BigUint { limbs_to_big(&T::R.0) }
    fn r2() -> BigUint { limbs_to_big(&T::R2.0) }
    fn inv() -> u64 { T::INV }
    fn flags() -> (bool, bool, bool) { (T::CAN_USE_NO_CARRY_MUL_OPT, T::CAN_USE_NO_CARRY_SQUARE_OPT, T::MODULUS_HAS_SPARE_BIT) }
    fn plus_one_div_four() -> Option<BigUint> { T::MODULUS_PLUS_ONE_DIV_FOUR.map(|b| limbs_to_big(&b.0)) }
}

fn sqrt_precomp_ok<F: Field>(t: &mut Tally, name: &str, q: &BigUint) {
    let one = BigUint::one();
    let qm1 = q - &one;
    let s = qm1.trailing_zeros().unwrap_or(0);
    let tr = &qm1 >> s;
    match F::SQRT_PRECOMP {
        None => t.check(false, || format!("{name}: no SQRT_PRECOMP")),
        Some(SqrtPrecomputation::TonelliShanks { two_adicity, quadratic_nonresidue_to_trace: z, trace_of_modulus_minus_one_div_two: tm }) => {
            t.check(two_adicity as u64 == s, || format!("{name}: SQRT_PRECOMP two_adicity {two_adicity} but v2(q-1) = {s}"));
            t.check(limbs_to_big(tm) == (&tr - &one) >> 1u32, || format!("{name}: SQRT_PRECOMP trace_of_modulus_minus_one_div_two"));
            // z must have order exactly 2^s (equivalently: z = (non-residue)^trace)
            let half = pow_big(&z, &(BigUint::one() << (s - 1)));
            t.check(half == -F::one() && s >= 1, || format!("{name}: SQRT_PRECOMP quadratic_nonresidue_to_trace does not have order 2^{s}"));
        },
        Some(SqrtPrecomputation::Case3Mod4 { modulus_plus_one_div_four: m }) => {
            t.check(q % 4u8 == BigUint::from(3u8) && limbs_to_big(m) == (q + &one) >> 2u32, || format!("{name}: SQRT_PRECOMP Case3Mod4 constant"));
        },
        Some(_) => t.check(false, || format!("{name}: SQRT_PRECOMP variant unknown to the checker")),
    }
}

fn sqrt_behaviour<F: Field>(t: &mut Tally, name: &str, rng: &mut Rng) {
    let mut r = rng.std();
    for i in 0..6 {
        let a = if i == 0 { F::zero() } else if i == 1 { F::one() } else { F::rand(&mut r) };
        let sq = a.square();
        // towers without configured square-root parameters (Fp6 as 3-over-2 and what is built on it) document sqrt as
        // unimplemented: outside C11 ("cubic extensions with configured parameters") and not a consistency fact
        match std::panic::catch_unwind(std::panic::AssertUnwindSafe(|| sq.sqrt())) {
            Ok(Some(b)) => t.check(b == a || b == -a, || format!("{name}: sqrt(a^2) is not +-a")),
            Ok(None) => t.check(false, || format!("{name}: sqrt(a^2) = None")),
            Err(_) => {
                let msg = crate::LAST_PANIC.lock().map(|g| g.clone()).unwrap_or_default();
                t.check(msg.contains("not implemented"), || format!("{name}: sqrt panicked: {msg}"));
                return;
            },
        }
        t.check(sq.legendre() != LegendreSymbol::QuadraticNonResidue && (sq.legendre() == LegendreSymbol::Zero) == a.is_zero(), || format!("{name}: legendre(a^2)"));
        if let Some(inv) = a.inverse() { t.check(inv * a == F::one(), || format!("{name}: inverse")); }
    }
}

pub fn prime<F: PrimeField + MontInfo>(t: &mut Tally, name: &str, rng: &mut Rng) {
    let p = modulus::<F>();
    let one = BigUint::one();
    let n = F::limbs();
    t.check(p.bit(0) && miller_rabin(&p), || format!("{name}: modulus is not an odd (probable) prime"));
    t.check(p.bits() as u32 == F::MODULUS_BIT_SIZE && p.bits() as usize <= 64 * n, || format!("{name}: MODULUS_BIT_SIZE"));
    // ---- the configuration invariant mont_wf assumed by the C01/C20 contracts
    let rr = (BigUint::one() << (64 * n)) % &p;
    t.check(F::r() == rr, || format!("{name}: R != 2^(64N) mod p"));
    t.check(F::r2() == (&rr * &rr) % &p, || format!("{name}: R2 != R^2 mod p"));
    let p0 = p.to_u64_digits()[0];
    t.check(F::inv().wrapping_mul(p0) == u64::MAX, || format!("{name}: INV * p0 != -1 mod 2^64"));
    let top = { let d = p.to_u64_digits(); if d.len() == n { d[n - 1] } else { 0 } };
    let spare = top >> 63 == 0;
    let all_one = p == (BigUint::one() << (64 * n - 1)) - &one;
    let (nc_mul, nc_sq, sp) = F::flags();
    t.check(sp == spare, || format!("{name}: MODULUS_HAS_SPARE_BIT"));
    t.check(nc_mul == (spare && !all_one), || format!("{name}: CAN_USE_NO_CARRY_MUL_OPT"));
    // the square flag only guards the asm path; it must at least imply the multiplication criterion
    t.check(!nc_sq || nc_mul, || format!("{name}: CAN_USE_NO_CARRY_SQUARE_OPT set where the no-carry criterion fails"));
    if let Some(m) = F::plus_one_div_four() { t.check(&p % 4u8 == BigUint::from(3u8) && m == (&p + &one) >> 2u32, || format!("{name}: MODULUS_PLUS_ONE_DIV_FOUR")); }
    else { t.check(&p % 4u8 != BigUint::from(3u8), || format!("{name}: MODULUS_PLUS_ONE_DIV_FOUR missing")); }
    t.check(to_big(&F::ONE) == one && F::ZERO.is_zero() && to_big(&F::ZERO) == BigUint::from(0u8) && F::from(1u64) == F::ONE, || format!("{name}: ZERO / ONE"));
    // ---- derived integers
    let pm1 = &p - &one;
    let s = pm1.trailing_zeros().unwrap();
    let tr = &pm1 >> s;
    t.check(limbs_to_big(F::MODULUS_MINUS_ONE_DIV_TWO.as_ref()) == &pm1 >> 1u32, || format!("{name}: MODULUS_MINUS_ONE_DIV_TWO"));
    t.check(F::TWO_ADICITY as u64 == s, || format!("{name}: TWO_ADICITY {} but v2(p-1) = {s}", F::TWO_ADICITY));
    t.check(limbs_to_big(F::TRACE.as_ref()) == tr, || format!("{name}: TRACE"));
    t.check(limbs_to_big(F::TRACE_MINUS_ONE_DIV_TWO.as_ref()) == (&tr - &one) >> 1u32, || format!("{name}: TRACE_MINUS_ONE_DIV_TWO"));
    t.check(limbs_to_big(F::characteristic()) == p && F::extension_degree() == 1, || format!("{name}: characteristic / extension_degree"));
    // ---- generator and roots of unity
    let g = F::GENERATOR;
    t.check(pow_big(&g, &(&pm1 >> 1u32)) == -F::ONE, || format!("{name}: GENERATOR is not a quadratic non-residue"));
    let w = F::TWO_ADIC_ROOT_OF_UNITY;
    t.check(w == pow_big(&g, &tr), || format!("{name}: TWO_ADIC_ROOT_OF_UNITY != GENERATOR^TRACE"));
    t.check(pow_big(&w, &(BigUint::one() << (s - 1))) == -F::ONE, || format!("{name}: TWO_ADIC_ROOT_OF_UNITY does not have order 2^{s}"));
    match (F::SMALL_SUBGROUP_BASE, F::SMALL_SUBGROUP_BASE_ADICITY, F::LARGE_SUBGROUP_ROOT_OF_UNITY) {
        (None, None, None) => {},
        (Some(b), Some(k), Some(lw)) => {
            let bk = BigUint::from(b).pow(k);
            let order = (BigUint::one() << s) * &bk;
            t.check(&pm1 % &order == BigUint::from(0u8), || format!("{name}: 2^s * {b}^{k} does not divide p-1"));
            t.check(lw == pow_big(&g, &(&pm1 / &order)), || format!("{name}: LARGE_SUBGROUP_ROOT_OF_UNITY != g^((p-1)/(2^s b^k))"));
            t.check(pow_big(&lw, &order).is_one() && !pow_big(&lw, &(&order >> 1u32)).is_one() && !pow_big(&lw, &(&order / BigUint::from(b))).is_one(), || format!("{name}: LARGE_SUBGROUP_ROOT_OF_UNITY order is not 2^s * {b}^{k}"));
        },
        _ => t.check(false, || format!("{name}: small-subgroup constants only partly given")),
    }
    sqrt_precomp_ok::<F>(t, name, &p);
    sqrt_behaviour::<F>(t, name, rng);
    // ---- canonical range
    let top_elem = F::from_bigint(F::MODULUS_MINUS_ONE_DIV_TWO).map(|h| h + h);
    t.check(top_elem == Some(-F::ONE) && F::from_bigint(F::MODULUS).is_none(), || format!("{name}: from_bigint range"));
    arith_samples::<F>(t, name, rng, &p);
}

/// The arithmetic the derive macro GENERATES for this modulus (unrolled add/sub/double/neg/mul/square for the shipped limb
/// count) against integers: structured operands whose limbs are drawn from {0, 1, 2^63, 2^64-2, 2^64-1, random} (reduced
/// mod p), values next to 0 and p, and uniformly random ones.  Sampled: the generated multiplication for N >= 3 is outside
/// the reach of the derive-grid proofs (resource limit), so this is the only check of it at the shipped sizes.
fn arith_samples<F: PrimeField>(t: &mut Tally, name: &str, rng: &mut Rng, p: &BigUint) {
    let n = ((F::MODULUS_BIT_SIZE + 63) / 64) as usize;
    let pool = [0u64, 1, 1 << 63, u64::MAX - 1, u64::MAX, 0x8000_0000_0000_0001, 0x7fff_ffff_ffff_ffff];
    let mk = |limbs: Vec<u64>| -> BigUint { limbs_to_big(&limbs) % p };
    let mut ops: Vec<BigUint> = vec![0u8.into(), 1u8.into(), 2u8.into(), p - 1u8, p - 2u8, (p - 1u8) >> 1u32, ((p - 1u8) >> 1u32) + 1u8];
    for &w in &pool { ops.push(mk(vec![w; n])); }
    for k in 0..n { let mut v = vec![0u64; n]; v[k] = u64::MAX; ops.push(mk(v.clone())); v[k] = 1; ops.push(mk(v)); let mut w = vec![u64::MAX; n]; w[k] = 0; ops.push(mk(w)); }
    for _ in 0..40 { ops.push(mk((0..n).map(|_| { let r = rng.next(); if r % 3 == 0 { rng.next() } else { pool[(r % 7) as usize] } }).collect())); }
    let mut r = rng.std();
    for _ in 0..20 { ops.push(to_big(&F::rand(&mut r))); }
    let fe = |x: &BigUint| F::from_le_bytes_mod_order(&x.to_bytes_le());
    let mut bad: Option<String> = None;
    let mut cases = 0u64;
    for (i, ia) in ops.iter().enumerate() {
        let a = fe(ia);
        if to_big(&a) != *ia { bad.get_or_insert(format!("from_le_bytes_mod_order({ia}) reads back {}", to_big(&a))); }
        let chk1 = to_big(&a.square()) == (ia * ia) % p && to_big(&a.double()) == (ia * 2u8) % p && to_big(&(-a)) == (p - ia) % p;
        if !chk1 { bad.get_or_insert(format!("square / double / neg of {ia}")); }
        if let Some(inv) = a.inverse() { if to_big(&(inv * a)) != BigUint::one() % p { bad.get_or_insert(format!("inverse of {ia}")); } } else if ia.bits() != 0 { bad.get_or_insert(format!("inverse of {ia} is None")); }
        cases += 4;
        // pair every operand with a window of the others (all pairs would be ~10^4 per field; the window keeps it ~2500)
        for d in 0..24usize {
            let ib = &ops[(i + d * 5 + 1) % ops.len()];
            let b = fe(ib);
            let ok = to_big(&(a * b)) == (ia * ib) % p && to_big(&(a + b)) == (ia + ib) % p && to_big(&(a - b)) == (ia + p - ib) % p;
            let mut m = a; m *= &b; let mut s2 = a; s2 += &b; let mut d2 = a; d2 -= &b;
            if !(ok && m == a * b && s2 == a + b && d2 == a - b) { bad.get_or_insert(format!("mul / add / sub of {ia} and {ib}")); }
            cases += 3;
        }
    }
    t.cases += cases;
    if let Some(w) = bad { t.check(false, || format!("{name}: generated arithmetic disagrees with integers: {w}")); }
}

/// nonresidue / helper facts that need the extension's configuration type
pub trait ExtInfo: Field {
    fn config_checks(t: &mut Tally, name: &str, rng: &mut Rng);
}
impl<P: QuadExtConfig> ExtInfo for QuadExtField<P> {
    fn config_checks(t: &mut Tally, name: &str, rng: &mut Rng) {
        let qb = field_order::<P::BaseField>();
        let e = (&qb - 1u8) >> 1u32;
        t.check(pow_big(&P::NONRESIDUE, &e) == -P::BaseField::one(), || format!("{name}: NONRESIDUE is a square in the base field"));
        t.check(P::DEGREE_OVER_BASE_PRIME_FIELD == Self::extension_degree() as usize && P::DEGREE_OVER_BASE_PRIME_FIELD == 2 * P::BaseField::extension_degree() as usize, || format!("{name}: DEGREE_OVER_BASE_PRIME_FIELD"));
        t.check(P::FROBENIUS_COEFF_C1.len() >= 1, || format!("{name}: empty Frobenius table"));
        let mut r = rng.std();
        for _ in 0..3 {
            let x = P::BaseField::rand(&mut r);
            let y = P::BaseField::rand(&mut r);
            let mut m = x; P::mul_base_field_by_nonresidue_in_place(&mut m);
            t.check(m == x * P::NONRESIDUE, || format!("{name}: mul_base_field_by_nonresidue_in_place"));
            let mut m = y; P::mul_base_field_by_nonresidue_and_add(&mut m, &x);
            t.check(m == x + y * P::NONRESIDUE, || format!("{name}: mul_base_field_by_nonresidue_and_add"));
            let mut m = y; P::mul_base_field_by_nonresidue_plus_one_and_add(&mut m, &x);
            t.check(m == x + y * (P::NONRESIDUE + P::BaseField::one()), || format!("{name}: mul_base_field_by_nonresidue_plus_one_and_add"));
            let mut m = y; P::sub_and_mul_base_field_by_nonresidue(&mut m, &x);
            t.check(m == x - y * P::NONRESIDUE, || format!("{name}: sub_and_mul_base_field_by_nonresidue"));
        }
    }
}
impl<P: CubicExtConfig> ExtInfo for CubicExtField<P> {
    fn config_checks(t: &mut Tally, name: &str, rng: &mut Rng) {
        let qb = field_order::<P::BaseField>();
        t.check((&qb - 1u8) % 3u8 == BigUint::from(0u8), || format!("{name}: |base| != 1 mod 3"));
        let e = (&qb - 1u8) / 3u8;
        t.check(!pow_big(&P::NONRESIDUE, &e).is_one(), || format!("{name}: NONRESIDUE is a cube in the base field"));
        t.check(P::DEGREE_OVER_BASE_PRIME_FIELD == Self::extension_degree() as usize && P::DEGREE_OVER_BASE_PRIME_FIELD == 3 * P::BaseField::extension_degree() as usize, || format!("{name}: DEGREE_OVER_BASE_PRIME_FIELD"));
        let mut r = rng.std();
        for _ in 0..3 {
            let x = P::BaseField::rand(&mut r);
            let mut m = x; P::mul_base_field_by_nonresidue_in_place(&mut m);
            t.check(m == x * P::NONRESIDUE && P::mul_base_field_by_nonresidue(x) == x * P::NONRESIDUE, || format!("{name}: mul_base_field_by_nonresidue"));
        }
    }
}

pub fn ext<E: ExtInfo>(t: &mut Tally, name: &str, rng: &mut Rng) {
    let p = limbs_to_big(E::characteristic());
    let deg = E::extension_degree() as usize;
    let q = p.pow(deg as u32);
    E::config_checks(t, name, rng);
    t.check(E::ONE.is_one() && E::ZERO.is_zero() && E::ONE != E::ZERO, || format!("{name}: ZERO / ONE"));
    // Frobenius tables: frobenius_map(i) is the p^i-power map, on every basis element over the prime field and on random elements
    let mut r = rng.std();
    let mut els: Vec<E> = (0..deg).map(|k| E::from_base_prime_field_elems((0..deg).map(|j| if j == k { E::BasePrimeField::one() } else { E::BasePrimeField::zero() })).unwrap()).collect();
    for _ in 0..3 { els.push(E::rand(&mut r)); }
    let s: E = els.iter().sum();
    els.push(s);
    for a in &els {
        let mut pw = *a;
        for i in 0..=(deg + 1) {
            let mut f = *a;
            f.frobenius_map_in_place(i);
            t.check(f == pw && a.frobenius_map(i) == pw, || format!("{name}: frobenius_map({i}) is not the p^{i}-power map"));
            pw = pow_big(&pw, &p);
        }
        t.check(pow_big(a, &q) == *a, || format!("{name}: a^q != a"));
    }
    sqrt_precomp_ok_ext::<E>(t, name, &q);
    sqrt_behaviour::<E>(t, name, rng);
}

fn sqrt_precomp_ok_ext<E: Field>(t: &mut Tally, name: &str, q: &BigUint) {
    // quadratic extensions use the norm-based algorithm and declare no precomputation
    if E::SQRT_PRECOMP.is_some() { sqrt_precomp_ok::<E>(t, name, q); }
}

macro_rules! inventory {
    ($( $kind:ident $path:path, $name:expr; )*) => {
        pub const INVENTORY: &[&str] = &[ $( concat!(stringify!($kind), " ", $name) ),* ];
        pub fn all(t: &mut Tally, rng: &mut Rng) {
            $( inventory!(@run $kind $path, $name, t, rng); )*
        }
    };
    (@run prime $path:path, $name:expr, $t:ident, $rng:ident) => { prime::<$path>($t, $name, $rng); };
    (@run ext $path:path, $name:expr, $t:ident, $rng:ident) => { ext::<$path>($t, $name, $rng); };
}

inventory! {
    prime ark_bls12_377::Fq, "curves/bls12_377 Fq";
    prime ark_bls12_377::Fr, "curves/bls12_377 Fr";
    ext ark_bls12_377::Fq2, "curves/bls12_377 Fq2";
    ext ark_bls12_377::Fq6, "curves/bls12_377 Fq6";
    ext ark_bls12_377::Fq12, "curves/bls12_377 Fq12";
    prime ark_bls12_381::Fq, "curves/bls12_381 Fq";
    prime ark_bls12_381::Fr, "curves/bls12_381 Fr";
    ext ark_bls12_381::Fq2, "curves/bls12_381 Fq2";
    ext ark_bls12_381::Fq6, "curves/bls12_381 Fq6";
    ext ark_bls12_381::Fq12, "curves/bls12_381 Fq12";
    prime ark_bn254::Fq, "curves/bn254 Fq";
    prime ark_bn254::Fr, "curves/bn254 Fr";
    ext ark_bn254::Fq2, "curves/bn254 Fq2";
    ext ark_bn254::Fq6, "curves/bn254 Fq6";
    ext ark_bn254::Fq12, "curves/bn254 Fq12";
    prime ark_bw6_761::Fq, "curves/bw6_761 Fq";
    ext ark_bw6_761::Fq3, "curves/bw6_761 Fq3";
    ext ark_bw6_761::Fq6, "curves/bw6_761 Fq6";
    prime ark_bw6_767::Fq, "curves/bw6_767 Fq";
    ext ark_bw6_767::Fq3, "curves/bw6_767 Fq3";
    ext ark_bw6_767::Fq6, "curves/bw6_767 Fq6";
    prime ark_cp6_782::Fq, "curves/cp6_782 Fq";
    ext ark_cp6_782::Fq3, "curves/cp6_782 Fq3";
    ext ark_cp6_782::Fq6, "curves/cp6_782 Fq6";
    prime ark_curve25519::Fq, "curves/curve25519 Fq";
    prime ark_curve25519::Fr, "curves/curve25519 Fr";
    prime ark_ed_on_bls12_377::Fr, "curves/ed_on_bls12_377 Fr";
    prime ark_ed_on_bls12_381::Fr, "curves/ed_on_bls12_381 Fr";
    prime ark_ed_on_bls12_381_bandersnatch::Fr, "curves/ed_on_bls12_381_bandersnatch Fr";
    prime ark_ed_on_bn254::Fr, "curves/ed_on_bn254 Fr";
    prime ark_ed_on_cp6_782::Fr, "curves/ed_on_cp6_782 Fr";
    prime ark_ed_on_mnt4_298::Fr, "curves/ed_on_mnt4_298 Fr";
    prime ark_ed_on_mnt4_753::Fr, "curves/ed_on_mnt4_753 Fr";
    prime ark_mnt4_298::Fq, "curves/mnt4_298 Fq";
    prime ark_mnt4_298::Fr, "curves/mnt4_298 Fr";
    ext ark_mnt4_298::Fq2, "curves/mnt4_298 Fq2";
    ext ark_mnt4_298::Fq4, "curves/mnt4_298 Fq4";
    prime ark_mnt4_753::Fq, "curves/mnt4_753 Fq";
    prime ark_mnt4_753::Fr, "curves/mnt4_753 Fr";
    ext ark_mnt4_753::Fq2, "curves/mnt4_753 Fq2";
    ext ark_mnt4_753::Fq4, "curves/mnt4_753 Fq4";
    ext ark_mnt6_298::Fq3, "curves/mnt6_298 Fq3";
    ext ark_mnt6_298::Fq6, "curves/mnt6_298 Fq6";
    ext ark_mnt6_753::Fq3, "curves/mnt6_753 Fq3";
    ext ark_mnt6_753::Fq6, "curves/mnt6_753 Fq6";
    prime ark_pallas::Fq, "curves/pallas Fq";
    prime ark_pallas::Fr, "curves/pallas Fr";
    prime ark_secp256k1::Fq, "curves/secp256k1 Fq";
    prime ark_secp256k1::Fr, "curves/secp256k1 Fr";
    prime ark_secp256r1::Fq, "curves/secp256r1 Fq";
    prime ark_secp256r1::Fr, "curves/secp256r1 Fr";
    prime ark_secp384r1::Fq, "curves/secp384r1 Fq";
    prime ark_secp384r1::Fr, "curves/secp384r1 Fr";
    prime ark_test_curves::bls12_381::Fq, "test-curves/bls12_381 Fq";
    prime ark_test_curves::bls12_381::Fr, "test-curves/bls12_381 Fr";
    ext ark_test_curves::bls12_381::Fq2, "test-curves/bls12_381 Fq2";
    ext ark_test_curves::bls12_381::Fq6, "test-curves/bls12_381 Fq6";
    ext ark_test_curves::bls12_381::Fq12, "test-curves/bls12_381 Fq12";
    prime ark_test_curves::bn384_small_two_adicity::Fq, "test-curves/bn384_small_two_adicity Fq";
    prime ark_test_curves::bn384_small_two_adicity::Fr, "test-curves/bn384_small_two_adicity Fr";
    prime ark_test_curves::ed_on_bls12_381::Fr, "test-curves/ed_on_bls12_381 Fr";
    prime ark_test_curves::mnt4_753::Fq, "test-curves/mnt4_753 Fq";
    prime ark_test_curves::mnt4_753::Fr, "test-curves/mnt4_753 Fr";
    ext ark_test_curves::mnt6_753::Fq3, "test-curves/mnt6_753 Fq3";
    prime ark_test_curves::secp256k1::Fq, "test-curves/secp256k1 Fq";
    prime ark_test_curves::secp256k1::Fr, "test-curves/secp256k1 Fr";
    prime ark_test_curves::fp128::Fq, "test-curves/fp128 Fq";
}
